"""
R-expr: exact reference evaluator for DSDL constant expressions. Never imports pydsdl.

Tree nodes (plain tuples):
    ("int", v) ("real", Fraction) ("str", s) ("bool", b) ("id", name) ("set", (children...))
    ("un", op, child) op in + - !          ("bin", op, left, right)        ("attr", child, name)        ("paren", child)
Values are tagged: ("r", Fraction) ("b", bool) ("s", str) ("set", frozenset of tagged values).
evaluate() returns a tagged value or raises Undefined(reason) (the Specification leaves the combination undefined:
the definition must be rejected) or Unspecified(reason) (the property text does not pin the result: only 'a value or
InvalidDefinitionError' is demanded) or TooBig (outside the bounded workload).
"""
from __future__ import annotations

import unicodedata
from fractions import Fraction


class Undefined(Exception):
    pass


class Unspecified(Exception):
    pass


class TooBig(Exception):
    pass


SIZE_LIMIT_BITS = 400


def _chk(fr: Fraction) -> Fraction:
    if fr.numerator.bit_length() > SIZE_LIMIT_BITS or fr.denominator.bit_length() > SIZE_LIMIT_BITS:
        raise TooBig
    return fr


def kind(v):
    return v[0]


def elem_kind(s):
    return next(iter(s[1]))[0]


def sig(v):
    """The type of a value: its kind, and for a set additionally the type of its elements (a set is parameterized by it)."""
    return ("set", sig(next(iter(v[1])))) if v[0] == "set" else v[0]


def mk_set(elements):
    # strings are compared after NFC normalisation (that is what == does), so canonically equivalent spellings are one element
    els = [("s", unicodedata.normalize("NFC", e[1])) if e[0] == "s" else e for e in elements]
    if not els:
        raise Undefined("empty set")
    if len({sig(e) for e in els}) != 1:
        raise Undefined("heterogeneous set")
    return ("set", frozenset(els))


ARITH = {"+", "-", "*", "/", "%", "**"}
BITWISE = {"|", "^", "&"}
COMPARE = {"==", "!=", "<", "<=", ">", ">="}
LOGIC = {"||", "&&"}


def arith(op, a: Fraction, b: Fraction) -> Fraction:
    if op == "+":
        return _chk(a + b)
    if op == "-":
        return _chk(a - b)
    if op == "*":
        return _chk(a * b)
    if op == "/":
        if b == 0:
            raise Undefined("division by zero")
        return _chk(a / b)
    if op == "%":
        if b == 0:
            raise Undefined("modulo by zero")
        if a < 0 or b < 0:
            raise Unspecified("sign of % with a negative operand")
        return _chk(a - b * (a // b))
    if op == "**":
        if b.denominator != 1:
            raise Unspecified("non-integer exponent")
        e = b.numerator
        if abs(e) > 64:
            raise TooBig
        if a == 0 and e == 0:
            raise Unspecified("0 ** 0")
        if a == 0 and e < 0:
            raise Undefined("zero to a negative power")
        if (a.numerator.bit_length() + a.denominator.bit_length()) * max(1, abs(e)) > SIZE_LIMIT_BITS:
            raise TooBig
        return _chk(a ** e)
    raise ValueError(op)


def binary(op, x, y):
    kx, ky = x[0], y[0]
    if kx == "set" or ky == "set":
        return binary_set(op, x, y)
    if op in LOGIC:
        if kx == ky == "b":
            return ("b", (x[1] or y[1]) if op == "||" else (x[1] and y[1]))
        raise Undefined("logical operator on %s, %s" % (kx, ky))
    if op in ("==", "!="):
        if kx != ky:
            raise Undefined("comparison of %s with %s" % (kx, ky))
        if kx == "s":
            eq = unicodedata.normalize("NFC", x[1]) == unicodedata.normalize("NFC", y[1])
        else:
            eq = x[1] == y[1]
        return ("b", eq if op == "==" else not eq)
    if op in COMPARE:
        if kx == ky == "r":
            a, b = x[1], y[1]
            return ("b", {"<": a < b, "<=": a <= b, ">": a > b, ">=": a >= b}[op])
        raise Undefined("ordering of %s, %s" % (kx, ky))
    if op in BITWISE:
        if kx == ky == "r":
            if x[1].denominator != 1 or y[1].denominator != 1:
                raise Undefined("bitwise operator on a non-integer")
            a, b = x[1].numerator, y[1].numerator
            if a < 0 or b < 0:
                raise Unspecified("bitwise operator on a negative integer")
            return ("r", Fraction({"|": a | b, "^": a ^ b, "&": a & b}[op]))
        raise Undefined("bitwise operator on %s, %s" % (kx, ky))
    if op in ARITH:
        if kx == ky == "r":
            return ("r", arith(op, x[1], y[1]))
        if op == "+" and kx == ky == "s":
            return ("s", x[1] + y[1])
        raise Undefined("arithmetic operator %s on %s, %s" % (op, kx, ky))
    raise ValueError(op)


def binary_set(op, x, y):
    kx, ky = x[0], y[0]
    if kx == ky == "set":
        if op in LOGIC or op in ARITH:
            raise Undefined("operator %s on two sets" % op)
        if sig(x) != sig(y):
            raise Undefined("sets of different element types")
        a, b = x[1], y[1]
        if op in COMPARE:
            return ("b", {"==": a == b, "!=": a != b, "<": a < b, "<=": a <= b, ">": a > b, ">=": a >= b}[op])
        res = {"|": a | b, "&": a & b, "^": a ^ b}[op]
        if not res:
            raise Undefined("empty set result")
        return ("set", frozenset(res))
    # exactly one operand is a set: element-wise application for the arithmetic operators only
    if op not in ARITH:
        raise Undefined("operator %s between a set and a scalar" % op)
    if kx == "set":
        return mk_set(binary(op, e, y) for e in x[1])
    return mk_set(binary(op, x, e) for e in y[1])


def unary(op, x):
    if op == "!":
        if x[0] == "b":
            return ("b", not x[1])
        raise Undefined("! on %s" % x[0])
    if x[0] == "r":
        return ("r", x[1] if op == "+" else -x[1])
    raise Undefined("unary %s on %s" % (op, x[0]))


def attribute(x, name):
    if x[0] != "set":
        raise Undefined("attribute %s of %s" % (name, x[0]))
    if name == "count":
        return ("r", Fraction(len(x[1])))
    if name in ("min", "max") and elem_kind(x) == "set":
        # sets are ordered by inclusion, a partial order: the least / greatest element is the one comparable to all others
        for c in x[1]:
            if all((c[1] <= o[1]) if name == "min" else (c[1] >= o[1]) for o in x[1]):
                return c
        raise Undefined("the set has no %s element under inclusion" % ("least" if name == "min" else "greatest"))
    if name in ("min", "max"):
        if elem_kind(x) != "r":
            if len(x[1]) == 1:
                raise Unspecified("min/max of a singleton set of non-rationals")
            raise Undefined("min/max of a set of %s" % elem_kind(x))
        vals = [e[1] for e in x[1]]
        return ("r", min(vals) if name == "min" else max(vals))
    raise Undefined("unknown attribute %s" % name)


def evaluate(t, env=None):
    """
    Eager evaluation (every operand is evaluated, as the Specification has no short circuit).  Undefined in any
    sub-expression makes the whole expression undefined; Unspecified propagates unless an Undefined is found elsewhere.
    """
    k = t[0]
    if k == "int":
        return ("r", Fraction(t[1]))
    if k == "real":
        return ("r", Fraction(t[1]))
    if k == "str":
        return ("s", t[1])
    if k == "bool":
        return ("b", t[1])
    if k == "id":
        if env is None or t[1] not in env:
            raise Undefined("undefined identifier %s" % t[1])
        return env[t[1]]
    if k == "paren":
        return evaluate(t[1], env)
    if k == "set":
        vals, pending = [], None
        for c in t[1]:
            try:
                vals.append(evaluate(c, env))
            except Unspecified as ex:
                pending = ex
        if pending is not None:
            raise pending
        return mk_set(vals)
    if k == "un":
        return unary(t[1], evaluate(t[2], env))
    if k == "bin":
        pending = None
        vals = []
        for c in (t[2], t[3]):
            try:
                vals.append(evaluate(c, env))
            except Unspecified as ex:
                pending = ex
        if pending is not None:
            raise pending
        return binary(t[1], vals[0], vals[1])
    if k == "attr":
        return attribute(evaluate(t[1], env), t[2])
    raise ValueError(k)


# ------------------------------------------------------------------------------------------------------------------
# precedence table of the Specification (higher binds tighter) and the minimal-parentheses renderer
# ------------------------------------------------------------------------------------------------------------------
ATOM, L_ATTR, L_EXP, L_UNARY, L_MUL, L_ADD, L_BIT, L_CMP, L_NOT, L_LOG = 10, 9, 8, 7, 6, 5, 4, 3, 2, 1
BIN_LEVEL = {"**": L_EXP, "*": L_MUL, "/": L_MUL, "%": L_MUL, "+": L_ADD, "-": L_ADD, "|": L_BIT, "^": L_BIT, "&": L_BIT,
             "==": L_CMP, "!=": L_CMP, "<": L_CMP, "<=": L_CMP, ">": L_CMP, ">=": L_CMP, "||": L_LOG, "&&": L_LOG}


def level(t) -> int:
    k = t[0]
    if k == "bin":
        return BIN_LEVEL[t[1]]
    if k == "un":
        return L_NOT if t[1] == "!" else L_UNARY
    if k == "attr":
        return L_ATTR
    return ATOM


def structure(t):
    """The tree without redundant parentheses and literal spellings (what the text must denote)."""
    k = t[0]
    if k == "paren":
        return structure(t[1])
    if k == "set":
        return ("set", tuple(structure(c) for c in t[1]))
    if k == "un":
        return ("un", t[1], structure(t[2]))
    if k == "bin":
        return ("bin", t[1], structure(t[2]), structure(t[3]))
    if k == "attr":
        return ("attr", structure(t[1]), t[2])
    return t[:2]
