"""
R-bls: reference semantics of bit length set operator trees. Never imports pydsdl.

A tree is plain data:
    ("leaf", (v1, v2, ...))          finite non-empty set of non-negative ints
    ("concat", (t1, t2, ...))        element-wise sums over the cartesian product
    ("union", (t1, t2, ...))
    ("repeat", t, k)                 k-fold multiset sums (k >= 0)
    ("range", t, k)                  union of j-fold sums for j in 0..k
    ("pad", t, a)                    every element rounded up to a multiple of a

Subsets of Z_m and explicit finite sets are both represented as Python ints used as bit masks (bit i set <=> i in
the set).  Sumsets are computed by shift-or over the smaller operand and k-fold sumsets by square-and-multiply, which
is a different algorithm from pydsdl's (enumeration of multisets after reducing k to min(k, d + k mod d)).
"""
from __future__ import annotations

import math


class TooBig(Exception):
    pass


# ------------------------------------------------------------------------------------------------------------------
# bit mask helpers
# ------------------------------------------------------------------------------------------------------------------
def mask_of(values) -> int:
    m = 0
    for v in values:
        m |= 1 << v
    return m


def bits(mask: int):
    """Indices of set bits, ascending."""
    out = []
    s = bin(mask)[:1:-1]  # reversed binary digits without the 0b prefix
    i = s.find("1")
    while i >= 0:
        out.append(i)
        i = s.find("1", i + 1)
    return out


def popcount(mask: int) -> int:
    return bin(mask).count("1")


def _rot(a: int, b: int, m: int, full: int) -> int:
    b %= m
    if b == 0:
        return a
    return ((a << b) | (a >> (m - b))) & full


def zsum(a: int, b: int, m: int) -> int:
    """Minkowski sum of two subsets of Z_m."""
    full = (1 << m) - 1
    if popcount(a) < popcount(b):
        a, b = b, a
    out = 0
    for s in bits(b):
        out |= _rot(a, s, m, full)
        if out == full:
            break
    return out


def zkfold(a: int, k: int, m: int) -> int:
    """k-fold sumset of a subset of Z_m (0-fold = {0}), square-and-multiply."""
    result = 1  # {0}
    base = a
    full = (1 << m) - 1
    while k:
        if k & 1:
            result = zsum(result, base, m)
        k >>= 1
        if k:
            if base == full:
                # full group stays full; result + full = full as long as result is non-empty
                return full
            base = zsum(base, base, m)
    return result


def esum(a: int, b: int, limit_bits: int) -> int:
    """Minkowski sum of two explicit finite sets of naturals."""
    if popcount(a) < popcount(b):
        a, b = b, a
    if a.bit_length() + b.bit_length() > limit_bits:
        raise TooBig
    out = 0
    for s in bits(b):
        out |= a << s
    return out


def ekfold(a: int, k: int, limit_bits: int) -> int:
    result = 1
    base = a
    while k:
        if k & 1:
            result = esum(result, base, limit_bits)
        k >>= 1
        if k:
            base = esum(base, base, limit_bits)
    return result


# ------------------------------------------------------------------------------------------------------------------
# reference semantics
# ------------------------------------------------------------------------------------------------------------------
def pad_up(x: int, a: int) -> int:
    return x + (-x) % a


def ref_min(t) -> int:
    k = t[0]
    if k == "leaf":
        return min(t[1])
    if k == "concat":
        return sum(ref_min(c) for c in t[1])
    if k == "union":
        return min(ref_min(c) for c in t[1])
    if k == "repeat":
        return ref_min(t[1]) * t[2]
    if k == "range":
        return 0
    if k == "pad":
        return pad_up(ref_min(t[1]), t[2])
    raise ValueError(k)


def ref_max(t) -> int:
    k = t[0]
    if k == "leaf":
        return max(t[1])
    if k == "concat":
        return sum(ref_max(c) for c in t[1])
    if k == "union":
        return max(ref_max(c) for c in t[1])
    if k in ("repeat", "range"):
        return ref_max(t[1]) * t[2]
    if k == "pad":
        return pad_up(ref_max(t[1]), t[2])
    raise ValueError(k)


def ref_expand_mask(t, limit_bits: int = 1 << 21, _memo=None) -> int:
    """Explicit set as a bit mask; raises TooBig when the largest element would exceed limit_bits."""
    if _memo is None:
        _memo = {}
    key = id(t)
    if key in _memo:
        return _memo[key]
    k = t[0]
    if k == "leaf":
        if max(t[1]) >= limit_bits:
            raise TooBig
        out = mask_of(t[1])
    elif k == "concat":
        out = 1
        for c in t[1]:
            out = esum(out, ref_expand_mask(c, limit_bits, _memo), limit_bits)
    elif k == "union":
        out = 0
        for c in t[1]:
            out |= ref_expand_mask(c, limit_bits, _memo)
    elif k == "repeat":
        if ref_max(t[1]) * t[2] >= limit_bits:
            raise TooBig
        out = ekfold(ref_expand_mask(t[1], limit_bits, _memo), t[2], limit_bits)
    elif k == "range":
        if ref_max(t[1]) * t[2] >= limit_bits:
            raise TooBig
        out = ekfold(ref_expand_mask(t[1], limit_bits, _memo) | 1, t[2], limit_bits)
    elif k == "pad":
        a = t[2]
        out = 0
        for x in bits(ref_expand_mask(t[1], limit_bits, _memo)):
            out |= 1 << pad_up(x, a)
    else:
        raise ValueError(k)
    _memo[key] = out
    return out


def ref_expand(t, limit_bits: int = 1 << 21) -> set:
    return set(bits(ref_expand_mask(t, limit_bits)))


PAD_PRODUCT_LIMIT = 1 << 13


def ref_mod_mask(t, d: int, _memo=None) -> int:
    """Residues of the set modulo d as a bit mask over Z_d."""
    if _memo is None:
        _memo = {}
    key = (id(t), d)
    if key in _memo:
        return _memo[key]
    k = t[0]
    if k == "leaf":
        out = 0
        for v in t[1]:
            out |= 1 << (v % d)
    elif k == "concat":
        out = 1
        for c in t[1]:
            out = zsum(out, ref_mod_mask(c, d, _memo), d)
    elif k == "union":
        out = 0
        for c in t[1]:
            out |= ref_mod_mask(c, d, _memo)
    elif k == "repeat":
        out = zkfold(ref_mod_mask(t[1], d, _memo), t[2], d)
    elif k == "range":
        out = zkfold(ref_mod_mask(t[1], d, _memo) | 1, t[2], d)
    elif k == "pad":
        a = t[2]
        # any common multiple of a and d works: x mod m determines pad(x) mod m whenever a | m.
        m = a * d if a * d <= PAD_PRODUCT_LIMIT else math.lcm(a, d)
        out = 0
        for r in bits(ref_mod_mask(t[1], m, _memo)):
            out |= 1 << (pad_up(r, a) % d)
    else:
        raise ValueError(k)
    _memo[key] = out
    return out


def ref_mod(t, d: int, memo=None) -> set:
    return set(bits(ref_mod_mask(t, d, memo)))


# ------------------------------------------------------------------------------------------------------------------
# rendering (what str(BitLengthSet) prints for a tree built through the public API)
# ------------------------------------------------------------------------------------------------------------------
def render(t) -> str:
    k = t[0]
    if k == "leaf":
        return "{%s}" % ",".join(str(x) for x in sorted(set(t[1])))
    if k == "concat":
        return "concat(%s)" % ",".join(render(c) for c in t[1])
    if k == "union":
        return "(%s)" % "|".join(render(c) for c in t[1])
    if k == "repeat":
        return "repeat(%d,%s)" % (t[2], render(t[1]))
    if k == "range":
        return "repeat(<=%d,%s)" % (t[2], render(t[1]))
    if k == "pad":
        return "pad(%d,%s)" % (t[2], render(t[1]))
    raise ValueError(k)


def parse(s: str):
    """Inverse of render(): parses str(BitLengthSet) into a tree (used by M-blsrepr)."""
    pos = 0

    def peek():
        return s[pos] if pos < len(s) else ""

    def expect(tok):
        nonlocal pos
        if not s.startswith(tok, pos):
            raise ValueError("expected %r at %d in %r" % (tok, pos, s))
        pos += len(tok)

    def number():
        nonlocal pos
        j = pos
        while j < len(s) and (s[j].isdigit() or (j == pos and s[j] == "-")):
            j += 1
        v = int(s[pos:j])
        pos = j
        return v

    def node():
        nonlocal pos
        c = peek()
        if c == "{":
            expect("{")
            vals = [number()]
            while peek() == ",":
                expect(",")
                vals.append(number())
            expect("}")
            return ("leaf", tuple(vals))
        if c == "(":
            expect("(")
            ch = [node()]
            while peek() == "|":
                expect("|")
                ch.append(node())
            expect(")")
            return ("union", tuple(ch))
        if s.startswith("concat(", pos):
            expect("concat(")
            ch = [node()]
            while peek() == ",":
                expect(",")
                ch.append(node())
            expect(")")
            return ("concat", tuple(ch))
        if s.startswith("repeat(<=", pos):
            expect("repeat(<=")
            k = number()
            expect(",")
            ch = node()
            expect(")")
            return ("range", ch, k)
        if s.startswith("repeat(", pos):
            expect("repeat(")
            k = number()
            expect(",")
            ch = node()
            expect(")")
            return ("repeat", ch, k)
        if s.startswith("pad(", pos):
            expect("pad(")
            a = number()
            expect(",")
            ch = node()
            expect(")")
            return ("pad", ch, a)
        raise ValueError("cannot parse %r at %d" % (s, pos))

    out = node()
    if pos != len(s):
        raise ValueError("trailing text in %r" % s)
    return out


# ------------------------------------------------------------------------------------------------------------------
# cost predictor for the *implementation under test* (so that the workload only asks what unchanged pydsdl can answer)
# ------------------------------------------------------------------------------------------------------------------
def _multiset_count(n: int, k: int) -> int:
    """Number of multisets of size k over n symbols."""
    if n == 0:
        return 1 if k == 0 else 0
    return math.comb(n + k - 1, k)


class CostMeter:
    """Predicts how many tuples pydsdl enumerates for modulo queries, emulating its per-node memoisation."""

    def __init__(self, budget: int):
        self.budget = budget
        self.spent = 0
        self.seen = set()
        self.memo = {}

    def charge(self, n: int) -> None:
        self.spent += n
        if self.spent > self.budget:
            raise TooBig

    def mod(self, t, d: int) -> None:
        key = (id(t), d)
        if key in self.seen:
            return
        self.seen.add(key)
        k = t[0]
        if k == "leaf":
            self.charge(len(t[1]))
        elif k == "concat":
            n = 1
            for c in t[1]:
                self.mod(c, d)
                n *= popcount(ref_mod_mask(c, d, self.memo))
            self.charge(n * len(t[1]))
        elif k == "union":
            for c in t[1]:
                self.mod(c, d)
            self.charge(len(t[1]))
        elif k == "repeat":
            self.mod(t[1], d)
            s = popcount(ref_mod_mask(t[1], d, self.memo))
            ke = min(t[2], d + t[2] % d)
            self.charge(_multiset_count(s, ke) * max(1, ke))
        elif k == "range":
            self.mod(t[1], d)
            s = popcount(ref_mod_mask(t[1], d, self.memo))
            ke = min(t[2], d + t[2] % d)
            # sum_{j<=ke} C(s+j-1, j) = C(s+ke, ke)
            self.charge(math.comb(s + ke, ke) * max(1, ke))
        elif k == "pad":
            m = math.lcm(t[2], d)
            self.mod(t[1], m)
            self.charge(popcount(ref_mod_mask(t[1], m, self.memo)))

    def expand(self, t, emask_memo: dict) -> None:
        """Cost of numerically expanding t (every node below is expanded, and each memoised node runs 64 divisor
        queries in validate_numerically)."""
        key = (id(t), "E")
        if key in self.seen:
            return
        self.seen.add(key)
        k = t[0]
        if k == "leaf":
            self.charge(len(t[1]))
            return
        if k in ("concat", "union"):
            n = 1
            for c in t[1]:
                self.expand(c, emask_memo)
                n *= popcount(ref_expand_mask(c, _memo=emask_memo))
            self.charge(n * len(t[1]) if k == "concat" else len(t[1]))
        elif k == "repeat":
            self.expand(t[1], emask_memo)
            s = popcount(ref_expand_mask(t[1], _memo=emask_memo))
            self.charge(_multiset_count(s, t[2]) * max(1, t[2]))
        elif k == "range":
            self.expand(t[1], emask_memo)
            s = popcount(ref_expand_mask(t[1], _memo=emask_memo))
            self.charge(math.comb(s + t[2], t[2]) * max(1, t[2]))
        elif k == "pad":
            self.expand(t[1], emask_memo)
            self.charge(popcount(ref_expand_mask(t[1], _memo=emask_memo)))
        for d in range(1, 65):
            self.mod(t, d)
