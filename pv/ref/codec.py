"""
R-codec: reference bit-level encoder/decoder for the type descriptions of pv/ref/layout.py. Never imports pydsdl.

The bit string is a Python int (bit i of the int = bit i of the serialized representation, i.e. LSB first, little
endian).  IEEE 754 conversion is done by explicit rounding / field extraction over exact rationals, not by struct.
Values use pydsdl's Python representation: composites are dicts keyed by field name (unions: exactly one key),
arrays are lists, utf8 arrays are str, byte arrays are bytes, padding fields do not appear.
"""
from __future__ import annotations

import math
from fractions import Fraction

from pv.ref.layout import DELIMITER_HEADER_WIDTH, length_prefix_width, union_tag_width

FLOAT_FMT = {16: (5, 10), 32: (8, 23), 64: (11, 52)}


class Reject(Exception):
    def __init__(self, kind, detail=""):
        super().__init__("%s %s" % (kind, detail))
        self.kind = kind


# ------------------------------------------------------------------------------------------------------------------
# IEEE 754
# ------------------------------------------------------------------------------------------------------------------
def float_max(width: int) -> Fraction:
    e, m = FLOAT_FMT[width]
    bias = (1 << (e - 1)) - 1
    return Fraction(2) ** bias * (2 - Fraction(1, 1 << m))


def _round_half_even(fr: Fraction) -> int:
    fl = fr.numerator // fr.denominator
    rem = fr - fl
    if rem > Fraction(1, 2) or (rem == Fraction(1, 2) and fl % 2 == 1):
        return fl + 1
    return fl


def ieee_encode(x: float, width: int) -> int:
    """Round-to-nearest-even conversion of a Python float to the bit pattern of binaryN; overflow gives infinity."""
    e, m = FLOAT_FMT[width]
    bias = (1 << (e - 1)) - 1
    sign = 1 if math.copysign(1.0, x) < 0 else 0
    top = sign << (width - 1)
    if x != x:
        return (((1 << e) - 1) << m) | (1 << (m - 1)) | top  # canonical quiet NaN; sign kept
    if x in (math.inf, -math.inf):
        return top | (((1 << e) - 1) << m)
    fr = abs(Fraction(x))
    if fr == 0:
        return top
    # exponent of the leading bit
    ex = fr.numerator.bit_length() - fr.denominator.bit_length()
    if Fraction(2) ** ex > fr:
        ex -= 1
    emin = 1 - bias
    if ex < emin:
        q = _round_half_even(fr / (Fraction(2) ** (emin - m)))
        body = q  # subnormal (carry into the smallest normal happens naturally)
    else:
        q = _round_half_even(fr / (Fraction(2) ** (ex - m)))  # in [2**m, 2**(m+1)]
        body = ((ex + bias) << m) + (q - (1 << m))
    if body >= (((1 << e) - 1) << m):
        body = ((1 << e) - 1) << m  # overflow -> infinity
    return top | body


def ieee_decode(bits: int, width: int) -> float:
    e, m = FLOAT_FMT[width]
    bias = (1 << (e - 1)) - 1
    sign = -1.0 if (bits >> (width - 1)) & 1 else 1.0
    ex = (bits >> m) & ((1 << e) - 1)
    man = bits & ((1 << m) - 1)
    if ex == (1 << e) - 1:
        if man:
            return math.copysign(math.nan, sign)
        return sign * math.inf
    if ex == 0:
        return sign * math.ldexp(man, 1 - bias - m)
    return sign * math.ldexp(man + (1 << m), ex - bias - m)


# ------------------------------------------------------------------------------------------------------------------
# casting of numbers
# ------------------------------------------------------------------------------------------------------------------
def cast_int(value: int, width: int, signed: bool, mode: str) -> int:
    """Returns the raw unsigned field content."""
    if mode == "sat":
        lo, hi = (-(1 << (width - 1)), (1 << (width - 1)) - 1) if signed else (0, (1 << width) - 1)
        value = min(hi, max(lo, value))
    return value & ((1 << width) - 1)


def cast_float(value, width: int, mode: str) -> int:
    """value: float or int (ints may exceed the double range)."""
    if isinstance(value, float) and (value != value or value in (math.inf, -math.inf)):
        return ieee_encode(value, width)
    fr = Fraction(value)
    mx = float_max(width)
    if mode == "sat":
        fr = min(mx, max(-mx, fr))
        return ieee_encode(_to_float(fr, value), width)
    # truncated: out-of-range overflows to infinity (by IEEE rounding)
    if abs(fr) > float_max(64):
        return ieee_encode(math.inf if fr > 0 else -math.inf, width)
    return ieee_encode(_to_float(fr, value), width)


def _to_float(fr: Fraction, original) -> float:
    if isinstance(original, float) and Fraction(original) == fr:
        return original  # keeps the sign of zero
    return fr.numerator / fr.denominator


# ------------------------------------------------------------------------------------------------------------------
# encoder
# ------------------------------------------------------------------------------------------------------------------
class Writer:
    def __init__(self):
        self.bits = 0
        self.pos = 0

    def put(self, value: int, n: int) -> None:
        self.bits |= (value & ((1 << n) - 1)) << self.pos
        self.pos += n

    def align(self, a: int) -> None:
        self.pos += (-self.pos) % a

    def to_bytes(self) -> bytes:
        return self.bits.to_bytes((self.pos + 7) // 8, "little")


class Codec:
    def __init__(self, universe):
        self.u = universe

    # ---- helpers ----
    def align_of(self, t) -> int:
        k = t[0]
        if k in ("fixed", "var"):
            return self.align_of(t[1])
        return 8 if k == "ref" else 1

    def default(self, t):
        k = t[0]
        if k == "bool":
            return False
        if k in ("uint", "int", "byte", "utf8"):
            return 0
        if k == "float":
            return 0.0
        if k == "fixed":
            if t[1][0] == "byte":
                return bytes(t[2])
            return [self.default(t[1]) for _ in range(t[2])]
        if k == "var":
            return "" if t[1][0] == "utf8" else (b"" if t[1][0] == "byte" else [])
        if k == "ref":
            return self.default_composite(t[1])
        raise ValueError(k)

    def default_composite(self, idx):
        d = self.u[idx]
        if d["kind"] == "union":
            f = d["fields"][0]
            return {f["name"]: self.default(f["type"])}
        return {f["name"]: self.default(f["type"]) for f in d["fields"] if "type" in f}

    # ---- encode ----
    def encode(self, idx: int, value, with_header: bool = False, trace=None) -> bytes:
        """trace: list receiving (field position, absolute bit position) for the outermost composite's fields."""
        w = Writer()
        d = self.u[idx]
        if not d["sealed"] and with_header:
            inner = Writer()
            self._enc_inner(inner, idx, value, None)
            body = inner.to_bytes()
            w.put(len(body), DELIMITER_HEADER_WIDTH)
            if trace is not None:
                t2 = []
                self._enc_inner(Writer(), idx, value, t2)
                trace.extend((i, p + DELIMITER_HEADER_WIDTH) for i, p in t2)
            for b in body:
                w.put(b, 8)
        else:
            self._enc_inner(w, idx, value, trace)
        return w.to_bytes()

    def _enc_inner(self, w: Writer, idx: int, value, trace) -> None:
        d = self.u[idx]
        if not isinstance(value, dict):
            raise TypeError("composite value must be a dict")
        if d["kind"] == "union":
            (name, v), = value.items()
            names = [f["name"] for f in d["fields"]]
            i = names.index(name)
            w.put(i, union_tag_width(len(names)))
            if trace is not None:
                trace.append((i, w.pos))
            self._enc_value(w, d["fields"][i]["type"], v)
            w.align(8)
            return
        for i, f in enumerate(d["fields"]):
            if "pad" in f:
                if trace is not None:
                    trace.append((i, w.pos))
                w.put(0, f["pad"])
                continue
            w.align(self.align_of(f["type"]))
            if trace is not None:
                trace.append((i, w.pos))
            v = value[f["name"]] if f["name"] in value else self.default(f["type"])
            self._enc_value(w, f["type"], v)
        w.align(8)

    def _enc_value(self, w: Writer, t, v) -> None:
        k = t[0]
        if k == "bool":
            w.put(1 if v else 0, 1)
        elif k == "uint":
            w.put(cast_int(int(v), t[1], False, t[2]), t[1])
        elif k in ("byte", "utf8"):
            w.put(cast_int(int(v), 8, False, "trunc"), 8)
        elif k == "int":
            w.put(cast_int(int(v), t[1], True, "sat"), t[1])
        elif k == "float":
            w.put(cast_float(v, t[1], t[2]), t[1])
        elif k in ("fixed", "var"):
            if isinstance(v, str):
                v = v.encode("utf-8")
            items = list(v)
            if k == "var":
                if len(items) > t[2]:
                    raise ValueError("too long")
                w.put(len(items), max(length_prefix_width(t[2]), self.align_of(t)))
            elif len(items) != t[2]:
                raise ValueError("wrong length")
            for it in items:
                self._enc_value(w, t[1], it)
        elif k == "ref":
            w.align(8)
            d = self.u[t[1]]
            if d["sealed"]:
                self._enc_inner(w, t[1], v, None)
            else:
                inner = Writer()
                self._enc_inner(inner, t[1], v, None)
                body = inner.to_bytes()
                w.put(len(body), DELIMITER_HEADER_WIDTH)
                for b in body:
                    w.put(b, 8)
        else:
            raise ValueError(k)

    # ---- decode ----
    def decode(self, idx: int, data: bytes, with_header: bool = False):
        r = Reader(int.from_bytes(data, "little"), 0, 8 * len(data))
        d = self.u[idx]
        if not d["sealed"] and with_header:
            return self._dec_delimited(r, idx)
        return self._dec_inner(r, idx)

    def _dec_delimited(self, r, idx):
        n = r.get(DELIMITER_HEADER_WIDTH)
        if n * 8 > r.remaining():
            raise Reject("delimiter-header", "%d bytes announced, %d bits remain" % (n, r.remaining()))
        sub = Reader(r.bits, r.pos, r.pos + n * 8)
        r.pos += n * 8
        return self._dec_inner(sub, idx)

    def _dec_inner(self, r, idx):
        d = self.u[idx]
        if d["kind"] == "union":
            tag = r.get(union_tag_width(len(d["fields"])))
            if tag >= len(d["fields"]):
                raise Reject("union-tag", "%d of %d" % (tag, len(d["fields"])))
            f = d["fields"][tag]
            out = {f["name"]: self._dec_value(r, f["type"])}
            r.align(8)
            return out
        out = {}
        for f in d["fields"]:
            if "pad" in f:
                r.get(f["pad"])
                continue
            r.align(self.align_of(f["type"]))
            out[f["name"]] = self._dec_value(r, f["type"])
        r.align(8)
        return out

    def _dec_value(self, r, t):
        k = t[0]
        if k == "bool":
            return bool(r.get(1))
        if k == "uint":
            return r.get(t[1])
        if k in ("byte", "utf8"):
            return r.get(8)
        if k == "int":
            raw = r.get(t[1])
            return raw - (1 << t[1]) if raw >> (t[1] - 1) else raw
        if k == "float":
            return ieee_decode(r.get(t[1]), t[1])
        if k in ("fixed", "var"):
            if k == "var":
                n = r.get(max(length_prefix_width(t[2]), self.align_of(t)))
                if n > t[2]:
                    raise Reject("array-length", "%d > %d" % (n, t[2]))
            else:
                n = t[2]
            items = [self._dec_value(r, t[1]) for _ in range(n)]
            if t[1][0] == "utf8":
                try:
                    return bytes(items).decode("utf-8")
                except UnicodeDecodeError:
                    raise Reject("utf8") from None
            if t[1][0] == "byte":
                return bytes(items)
            return items
        if k == "ref":
            r.align(8)
            if self.u[t[1]]["sealed"]:
                return self._dec_inner(r, t[1])
            return self._dec_delimited(r, t[1])
        raise ValueError(k)

    # ---- validity of a decoded object ----
    def valid(self, t, v) -> bool:
        k = t[0]
        if k == "bool":
            return isinstance(v, bool)
        if k == "uint":
            return isinstance(v, int) and not isinstance(v, bool) and 0 <= v < (1 << t[1])
        if k == "int":
            return isinstance(v, int) and not isinstance(v, bool) and -(1 << (t[1] - 1)) <= v < (1 << (t[1] - 1))
        if k == "float":
            return isinstance(v, float)
        if k in ("fixed", "var"):
            if t[1][0] == "utf8":
                ok = isinstance(v, str)
                n = len(v.encode("utf-8")) if ok else 0
            elif t[1][0] == "byte":
                ok = isinstance(v, bytes)
                n = len(v) if ok else 0
            else:
                ok = isinstance(v, list) and all(self.valid(t[1], x) for x in v)
                n = len(v) if ok else 0
            return ok and (n == t[2] if k == "fixed" else n <= t[2])
        if k == "ref":
            return self.valid_composite(t[1], v)
        return False

    def valid_composite(self, idx, v) -> bool:
        d = self.u[idx]
        if not isinstance(v, dict):
            return False
        if d["kind"] == "union":
            if len(v) != 1:
                return False
            (name, x), = v.items()
            for f in d["fields"]:
                if f["name"] == name:
                    return self.valid(f["type"], x)
            return False
        names = [f["name"] for f in d["fields"] if "type" in f]
        if list(v.keys()) != names:
            return False
        return all(self.valid(f["type"], v[f["name"]]) for f in d["fields"] if "type" in f)


class Reader:
    """Bits outside [0, end) read as zero; the position may run past the end."""

    def __init__(self, bits: int, pos: int, end: int):
        self.bits, self.pos, self.end = bits, pos, end

    def get(self, n: int) -> int:
        avail = max(0, min(n, self.end - self.pos))
        v = (self.bits >> self.pos) & ((1 << avail) - 1) if avail > 0 else 0
        self.pos += n
        return v

    def align(self, a: int) -> None:
        self.pos += (-self.pos) % a

    def remaining(self) -> int:
        return max(0, self.end - self.pos)


def same_value(a, b) -> bool:
    """Structural equality that treats NaN == NaN and distinguishes -0.0 from 0.0."""
    if isinstance(a, float) and isinstance(b, float):
        if a != a or b != b:
            return a != a and b != b
        return a == b and math.copysign(1.0, a) == math.copysign(1.0, b)
    if type(a) is not type(b):
        return False
    if isinstance(a, dict):
        return list(a.keys()) == list(b.keys()) and all(same_value(a[k], b[k]) for k in a)
    if isinstance(a, list):
        return len(a) == len(b) and all(same_value(x, y) for x, y in zip(a, b))
    return a == b
