"""
R-layout: the Specification's layout rules over harness-owned type descriptions. Never imports pydsdl.

Type descriptions (plain tuples):
    ("bool",) ("uint", n, mode) ("int", n) ("float", n, mode) ("byte",) ("utf8",) ("void", n)
    ("fixed", elem, capacity) ("var", elem, capacity) ("ref", index)         mode in {"sat", "trunc"}
A universe is a list of composite definitions (dicts), each may reference earlier ones by index:
    {"name": "ns.T0", "ver": (1, 0), "kind": "struct"|"union", "fields": [{"name": str, "type": T} | {"pad": n}],
     "sealed": bool, "extent": int|None}
Layout results are R-bls trees (pv/ref/bls.py).
"""
from __future__ import annotations

BYTE = 8


def smallest_std_width(value_bits: int) -> int:
    """Smallest of 8/16/32/64 that has at least value_bits bits."""
    for w in (8, 16, 32, 64):
        if value_bits <= w:
            return w
    raise ValueError("value needs %d bits" % value_bits)


def length_prefix_width(capacity: int) -> int:
    return smallest_std_width(capacity.bit_length())


def union_tag_width(n_variants: int) -> int:
    return smallest_std_width((n_variants - 1).bit_length())


DELIMITER_HEADER_WIDTH = 32


class Layout:
    def __init__(self, universe):
        self.u = universe
        self._defs = {}

    # ---- types ---------------------------------------------------------------------------------------------
    def align(self, t) -> int:
        k = t[0]
        if k in ("fixed", "var"):
            return self.align(t[1])
        if k == "ref":
            return BYTE
        return 1

    def tree(self, t):
        k = t[0]
        if k == "bool":
            return ("leaf", (1,))
        if k in ("uint", "int", "float", "void"):
            return ("leaf", (t[1],))
        if k in ("byte", "utf8"):
            return ("leaf", (8,))
        if k == "fixed":
            return ("repeat", self.tree(t[1]), t[2])
        if k == "var":
            return ("concat", (("leaf", (length_prefix_width(t[2]),)), ("range", self.tree(t[1]), t[2])))
        if k == "ref":
            return self.definition(t[1])["tree"]
        raise ValueError(k)

    def prefix_width(self, t) -> int:
        assert t[0] == "var"
        return max(length_prefix_width(t[2]), self.align(t))

    # ---- composites ----------------------------------------------------------------------------------------
    def field_types(self, d):
        return [("void", f["pad"]) if "pad" in f else f["type"] for f in d["fields"]]

    def inner_tree(self, d):
        """Layout of the composite as if sealed (fields aggregated, padded to one byte)."""
        fts = self.field_types(d)
        if d["kind"] == "struct":
            acc = None
            for ft in fts:
                ftree = self.tree(ft)
                if acc is None:
                    acc = ftree
                else:
                    a = self.align(ft)
                    acc = ("concat", ((("pad", acc, a) if a > 1 else acc), ftree))
            if acc is None:
                acc = ("leaf", (0,))
            return ("pad", acc, BYTE)
        tag = union_tag_width(len(fts))
        return ("pad", ("concat", (("leaf", (tag,)), ("union", tuple(self.tree(ft) for ft in fts)))), BYTE)

    def definition(self, idx: int) -> dict:
        if idx in self._defs:
            return self._defs[idx]
        from pv.ref import bls as R

        d = self.u[idx]
        inner = self.inner_tree(d)
        inner_max = R.ref_max(inner)
        out = {"inner_tree": inner, "inner_max": inner_max, "align": BYTE}
        if d["kind"] == "union":
            out["tag"] = union_tag_width(len(d["fields"]))
        if d["sealed"]:
            out["tree"] = inner
            out["extent"] = inner_max
            out["header"] = None
        else:
            ext = d["extent"]
            out["tree"] = ("concat", (("leaf", (DELIMITER_HEADER_WIDTH,)), ("range", ("leaf", (BYTE,)), ext // BYTE)))
            out["extent"] = ext
            out["header"] = DELIMITER_HEADER_WIDTH
        self._defs[idx] = out
        return out

    # ---- offsets -------------------------------------------------------------------------------------------
    def field_offsets(self, idx: int, base_tree):
        """List of (field position in d['fields'], offset tree) for every field incl. paddings, for a base offset set."""
        d = self.u[idx]
        info = self.definition(idx)
        off = ("pad", base_tree, BYTE)
        if not d["sealed"]:
            off = ("concat", (off, ("leaf", (DELIMITER_HEADER_WIDTH,))))
        fts = self.field_types(d)
        out = []
        if d["kind"] == "union":
            off = ("concat", (off, ("leaf", (info["tag"],))))
            for i in range(len(fts)):
                out.append((i, off))
            return out
        for i, ft in enumerate(fts):
            a = self.align(ft)
            if a > 1:
                off = ("pad", off, a)
            out.append((i, off))
            off = ("concat", (off, self.tree(ft)))
        return out

    def struct_offset_after(self, idx: int, n_fields: int):
        """`_offset_` after the first n_fields field statements of definition idx (before padding for the next)."""
        d = self.u[idx]
        fts = self.field_types(d)[:n_fields]
        if d["kind"] == "union":
            if len(fts) == 0:
                return ("leaf", (0,))
            if len(fts) == 1:
                return self.tree(fts[0])
            return ("concat", (("leaf", (union_tag_width(len(fts)),)), ("union", tuple(self.tree(ft) for ft in fts))))
        acc = None
        for ft in fts:
            ftree = self.tree(ft)
            if acc is None:
                acc = ftree
            else:
                a = self.align(ft)
                acc = ("concat", ((("pad", acc, a) if a > 1 else acc), ftree))
        return acc if acc is not None else ("leaf", (0,))
