"""
Runner for the runtime-monitoring checks (see DESIGN.md section 1).

Driver mode:  ./check C07 [--tier quick|thorough] [--replay FILE]
Shard mode :  python -m pv.core --shard <json-spec>      (internal)

Exit codes: 0 held (possibly KNOWN-FINDING lines), 1 VIOLATION, 2 INCONCLUSIVE.
"""
from __future__ import annotations

import contextlib
import hashlib
import importlib
import json
import os
import random
import shutil
import signal
import subprocess
import sys
import tempfile
import threading
import time
import traceback
from collections import Counter
from pathlib import Path

VERIF = Path(__file__).resolve().parent.parent
DEPS = VERIF / ".deps"
PYTHON = "/venv/bin/python"
WHEELS = "/opt/veriftools/wheels"
LEVEL = "exploration"


# --------------------------------------------------------------------------------------------------------------------
# Environment helpers
# --------------------------------------------------------------------------------------------------------------------
def repo_root() -> Path:
    return Path(os.environ.get("PV_REPO", "/repo")).resolve()


def ensure_deps() -> None:
    """Install icontract + jsonschema beside the harness from the offline wheelhouse if they are missing."""
    marker = DEPS / ".ok"
    if marker.exists():
        return
    lock = VERIF / ".deps.lock"
    import fcntl

    with open(lock, "w") as lf:
        fcntl.flock(lf, fcntl.LOCK_EX)
        if marker.exists():
            return
        DEPS.mkdir(exist_ok=True)
        cmd = [
            PYTHON, "-m", "pip", "install", "--quiet", "--no-index", "--find-links", WHEELS,
            "--target", str(DEPS), "icontract", "jsonschema",
        ]
        r = subprocess.run(cmd, capture_output=True, text=True)
        if r.returncode != 0:
            sys.stderr.write(r.stdout + r.stderr)
            raise SystemExit("setup failed: cannot install icontract/jsonschema from the offline wheelhouse")
        marker.write_text("ok\n")


def child_env(hashseed: int) -> dict:
    env = dict(os.environ)
    env["PYTHONPATH"] = os.pathsep.join([str(repo_root()), str(VERIF), str(DEPS)])
    env["PYTHONHASHSEED"] = str(hashseed % 4294967296)
    env["PYTHONDONTWRITEBYTECODE"] = "1"
    env["PV_REPO"] = str(repo_root())
    env.pop("PYDSDL_POISON_SLOW_EXPANSION_SECONDS", None)
    return env


def import_pydsdl():
    """Import pydsdl and make sure it is the tree under test."""
    root = repo_root()
    if str(root) not in sys.path:
        sys.path.insert(0, str(root))
    import pydsdl  # noqa

    got = Path(pydsdl.__file__).resolve()
    if root not in got.parents:
        raise SystemExit("pydsdl imported from %s, expected under %s" % (got, root))
    return pydsdl


def scratch_base() -> Path:
    for cand in ("/dev/shm", None):
        try:
            if cand is None:
                return Path(tempfile.mkdtemp(prefix="pv-"))
            if os.path.isdir(cand) and os.access(cand, os.W_OK):
                return Path(tempfile.mkdtemp(prefix="pv-", dir=cand))
        except OSError:
            continue
    return Path(tempfile.mkdtemp(prefix="pv-"))


def digest(obj) -> str:
    return hashlib.sha256(json.dumps(obj, sort_keys=True, default=str).encode()).hexdigest()[:16]


def jsonable(x, depth=0):
    """Best-effort conversion of a witness to JSON-compatible plain data."""
    if depth > 12:
        return repr(x)
    if x is None or isinstance(x, (bool, int, str)):
        return x
    if isinstance(x, float):
        return x if x == x and x not in (float("inf"), float("-inf")) else repr(x)
    if isinstance(x, (bytes, bytearray)):
        return {"__bytes__": bytes(x).hex()}
    if isinstance(x, dict):
        return {str(k): jsonable(v, depth + 1) for k, v in x.items()}
    if isinstance(x, (list, tuple)):
        return [jsonable(v, depth + 1) for v in x]
    if isinstance(x, (set, frozenset)):
        try:
            return {"__set__": sorted(jsonable(v, depth + 1) for v in x)}
        except TypeError:
            return {"__set__": [jsonable(v, depth + 1) for v in x]}
    if isinstance(x, Path):
        return str(x)
    return repr(x)


# --------------------------------------------------------------------------------------------------------------------
# Shard context
# --------------------------------------------------------------------------------------------------------------------
class CaseTimeout(BaseException):
    """Raised by the per-case watchdog. BaseException so that 'except Exception' in the code under test cannot eat it."""


class Ctx:
    MAX_VIOLATIONS_KEPT = 12
    MAX_SAMPLES = 6

    def __init__(self, prop: str, tier: str, seed: int, shard: int, nshards: int, tmp: Path, params: dict):
        self.prop, self.tier, self.seed, self.shard, self.nshards = prop, tier, seed, shard, nshards
        self.tmp = tmp
        self.params = params
        self.rng = random.Random("%s:%s:%d:%d" % (prop, tier, seed, shard))
        self.evaluations = 0
        self.sigs: set = set()
        self.classes: Counter = Counter()
        self.monitors: Counter = Counter()
        self.samples: list = []
        self.violations: list = []
        self.violation_count = 0
        self.violation_mechs: Counter = Counter()
        self.inconclusive: list = []
        self.notes: dict = {}
        self.t0 = time.monotonic()
        self.time_cap = float(params.get("time_cap_s", 600))
        self.truncated = False
        self._case_no = 0

    # ---- budget ------------------------------------------------------------------------------------------------
    def out_of_time(self) -> bool:
        if time.monotonic() - self.t0 > self.time_cap:
            self.truncated = True
            return True
        return False

    def share(self, total: int) -> int:
        """This shard's share of `total` cases."""
        base, rem = divmod(int(total), self.nshards)
        return base + (1 if self.shard < rem else 0)

    def subrng(self, *key) -> random.Random:
        return random.Random("%s:%s:%d:%d:%s" % (self.prop, self.tier, self.seed, self.shard, ":".join(map(str, key))))

    # ---- recording ---------------------------------------------------------------------------------------------
    def case(self, sig, nontrivial: bool, classes=(), sample=None) -> None:
        self.evaluations += 1
        for c in classes:
            self.classes[c] += 1
        if nontrivial:
            self.sigs.add(hashlib.blake2b(repr(sig).encode(), digest_size=8).hexdigest())
        if sample is not None and len(self.samples) < self.MAX_SAMPLES:
            self.samples.append(jsonable(sample))

    def mon(self, name: str, n: int = 1) -> None:
        self.monitors[name] += n

    def cls(self, name: str, n: int = 1) -> None:
        self.classes[name] += n

    def violation(self, mech: str, detail: str, case) -> None:
        """mech: mechanism id used for known-findings classification; case: replayable plain data."""
        self.violation_count += 1
        self.violation_mechs[mech] += 1
        kept_same = sum(1 for v in self.violations if v["mech"] == mech)
        if kept_same < 3 and len(self.violations) < self.MAX_VIOLATIONS_KEPT:
            self.violations.append({"mech": mech, "detail": str(detail)[:2000], "case": jsonable(case)})

    def inconclusive_case(self, why: str, case=None) -> None:
        if len(self.inconclusive) < 20:
            self.inconclusive.append({"why": str(why)[:500], "case": jsonable(case)})
        self.classes["inconclusive"] += 1

    @contextlib.contextmanager
    def watchdog(self, seconds: float):
        """Per-case wall-clock watchdog; its firing is *inconclusive*, never a verdict."""

        def handler(signum, frame):
            raise CaseTimeout()

        old = signal.signal(signal.SIGALRM, handler)
        signal.setitimer(signal.ITIMER_REAL, seconds)
        try:
            yield
        finally:
            signal.setitimer(signal.ITIMER_REAL, 0)
            signal.signal(signal.SIGALRM, old)

    def fresh_dir(self, name: str | None = None) -> Path:
        self._case_no += 1
        d = self.tmp / (name or ("c%d" % self._case_no))
        if d.exists():
            shutil.rmtree(d, ignore_errors=True)
        d.mkdir(parents=True)
        return d

    def result(self) -> dict:
        return {
            "shard": self.shard,
            "evaluations": self.evaluations,
            "sigs": sorted(self.sigs),
            "classes": dict(self.classes),
            "monitors": dict(self.monitors),
            "samples": self.samples,
            "violations": self.violations,
            "violation_count": self.violation_count,
            "violation_mechs": dict(self.violation_mechs),
            "inconclusive": self.inconclusive,
            "notes": jsonable(self.notes),
            "truncated": self.truncated,
            "wall_s": round(time.monotonic() - self.t0, 3),
        }


# --------------------------------------------------------------------------------------------------------------------
# Shard entry
# --------------------------------------------------------------------------------------------------------------------
def shard_main(spec: dict) -> int:
    import faulthandler

    faulthandler.enable()
    faulthandler.dump_traceback_later(float(spec.get("hard_timeout_s", 1800)) - 5, exit=False)
    sys.setrecursionlimit(3000)
    if str(DEPS) not in sys.path:
        sys.path.append(str(DEPS))
    import_pydsdl()
    mod = importlib.import_module("pv.props.%s" % spec["prop"].lower())
    tmp = Path(spec["tmp"])
    tmp.mkdir(parents=True, exist_ok=True)
    ctx = Ctx(spec["prop"], spec["tier"], spec["seed"], spec["shard"], spec["nshards"], tmp, spec.get("params", {}))
    status = "ok"
    err = None
    reach = None
    if os.environ.get("PV_REACH", "1") != "0":
        from pv.mon.reach import Reach

        reach = Reach(str(repo_root()))
        if not reach.install():
            reach = None
    try:
        mod.run_shard(ctx)
    except CaseTimeout:
        status, err = "watchdog-escaped", traceback.format_exc()
    except BaseException:  # noqa
        status, err = "crashed", traceback.format_exc()
    res = ctx.result()
    res["status"] = status
    res["error"] = err
    if reach is not None:
        reach.uninstall()
        res["reach"] = reach.result()
    Path(spec["out"]).write_text(json.dumps(res))
    shutil.rmtree(tmp, ignore_errors=True)
    return 0


# --------------------------------------------------------------------------------------------------------------------
# Known findings
# --------------------------------------------------------------------------------------------------------------------
def load_findings() -> dict:
    p = VERIF / "known_findings.json"
    if not p.exists():
        return {}
    data = json.loads(p.read_text())
    return {e["mech"]: e for e in data.get("findings", [])}


# --------------------------------------------------------------------------------------------------------------------
# Driver
# --------------------------------------------------------------------------------------------------------------------
def run_check(prop: str, tier: str, seed: int) -> int:
    t0 = time.monotonic()
    ensure_deps()
    sys.path.append(str(DEPS))
    mod = importlib.import_module("pv.props.%s" % prop.lower())
    plan = mod.plan(tier)
    nshards = int(plan.get("shards", 16))
    hard_timeout = float(plan.get("hard_timeout_s", 1500 if tier == "quick" else 5400))
    base = scratch_base()
    results: list = [None] * nshards
    errors: list = [None] * nshards

    def run_one(i: int) -> None:
        out = base / ("shard%d.json" % i)
        spec = {
            "prop": prop, "tier": tier, "seed": seed, "shard": i, "nshards": nshards, "out": str(out),
            "tmp": str(base / ("w%d" % i)), "params": plan.get("params", {}), "hard_timeout_s": hard_timeout,
        }
        hashseed = int(hashlib.sha256(("%s:%d:%d" % (prop, seed, i)).encode()).hexdigest()[:8], 16)
        try:
            r = subprocess.run(
                [PYTHON, "-m", "pv.core", "--shard", json.dumps(spec)],
                env=child_env(hashseed), cwd=str(VERIF), capture_output=True, text=True, timeout=hard_timeout,
            )
            if out.exists():
                results[i] = json.loads(out.read_text())
                results[i]["hashseed"] = hashseed
            else:
                errors[i] = "shard %d exited %d without result: %s" % (i, r.returncode, (r.stderr or "")[-1500:])
        except subprocess.TimeoutExpired:
            errors[i] = "shard %d hit the hard watchdog (%ds)" % (i, hard_timeout)
        except Exception as ex:  # noqa
            errors[i] = "shard %d: %r" % (i, ex)

    par = int(plan.get("parallel", min(nshards, os.cpu_count() or 4)))
    sem = threading.Semaphore(par)
    threads = []

    def guarded(i):
        with sem:
            run_one(i)

    for i in range(nshards):
        th = threading.Thread(target=guarded, args=(i,))
        th.start()
        threads.append(th)
    for th in threads:
        th.join()
    shutil.rmtree(base, ignore_errors=True)

    # ---- aggregate ----
    evaluations = 0
    sigs: set = set()
    classes: Counter = Counter()
    monitors: Counter = Counter()
    samples: list = []
    violations: list = []
    vcount = 0
    vmechs: Counter = Counter()
    inconclusive: list = []
    notes: dict = {}
    truncated = 0
    problems: list = []
    for i, r in enumerate(results):
        if r is None:
            problems.append(errors[i] or ("shard %d produced nothing" % i))
            continue
        if r["status"] != "ok":
            err = r.get("error") or ""
            problems.append("shard %d %s: %s" % (i, r["status"], err if len(err) < 2600 else err[:900] + "\n...\n" + err[-1500:]))
        evaluations += r["evaluations"]
        sigs.update(r["sigs"])
        classes.update(r["classes"])
        monitors.update(r["monitors"])
        for s in r["samples"]:
            if len(samples) < 8:
                samples.append(s)
        for v in r["violations"]:
            v["hashseed"] = r.get("hashseed")
            v["shard"] = i
            violations.append(v)
        vcount += r["violation_count"]
        vmechs.update(r["violation_mechs"])
        inconclusive.extend(r["inconclusive"])
        truncated += 1 if r["truncated"] else 0
        for k, v in (r.get("notes") or {}).items():
            notes.setdefault(k, v)

    # ---- minimum monitor counts: a disconnected monitor must not be vacuously green ----
    mins = dict(getattr(mod, "MIN_MONITORS", {}))
    scale = 1
    if tier != "quick":
        # the minimum counts are stated for the quick workload; scale them with the actual workload ratio of the tiers
        qp, tp = mod.plan("quick").get("params", {}), plan.get("params", {})
        ratios = [tp[k] / qp[k] for k in tp if k.startswith("n") and isinstance(tp.get(k), (int, float)) and isinstance(qp.get(k), (int, float)) and qp[k] > 0 and tp[k] > 0]
        scale = max(1, int(0.75 * min(ratios))) if ratios else 1
        scale = min(scale, int(getattr(mod, "THOROUGH_MIN_SCALE", scale)))
    for name, m in mins.items():
        if monitors.get(name, 0) < m * scale:
            problems.append("monitor %s evaluated %d times, expected at least %d" % (name, monitors.get(name, 0), m * scale))
    if evaluations == 0:
        problems.append("no case was evaluated")
    if len(sigs) < 2:
        problems.append("fewer than 2 distinct non-trivial cases")
    if len(inconclusive) and len(inconclusive) > max(5, evaluations // 50):
        problems.append("%d cases were inconclusive (watchdog/step budget)" % len(inconclusive))

    # ---- classify violations against the committed known-findings file ----
    findings = load_findings()
    new_v, known_v = [], []
    for v in violations:
        e = findings.get(v["mech"])
        if e is not None and e.get("status") == "known" and e.get("property") == prop:
            known_v.append(v)
        else:
            new_v.append(v)
    known_mechs = sorted({v["mech"] for v in known_v})
    new_mechs = {m for m in vmechs if not (m in findings and findings[m].get("status") == "known"
                                            and findings[m].get("property") == prop)}

    replay_dir = VERIF / "replays"
    lines = []
    for mech in known_mechs:
        lines.append("KNOWN-FINDING: property=%s %s: %s" % (prop, mech, findings[mech].get("what", "")))
    seen_mech_files = {}
    written = set()
    for v in new_v:
        replay_dir.mkdir(exist_ok=True)
        payload = {"property": prop, "tier": tier, "seed": seed, "mech": v["mech"], "detail": v["detail"],
                   "case": v["case"], "hashseed": v.get("hashseed"), "shard": v.get("shard")}
        path = replay_dir / ("%s-%s.json" % (prop, digest(payload)))
        fresh_path = not path.exists() or path not in written
        written.add(path)
        path.write_text(json.dumps(payload, indent=1))
        if seen_mech_files.setdefault(v["mech"], 0) < 3 and fresh_path:
            lines.append("VIOLATION property=%s replay=%s  [%s] %s" % (prop, path, v["mech"], v["detail"][:300].replace("\n", " | ")))
        seen_mech_files[v["mech"]] += 1
    # mechanisms whose witnesses were all dropped by the per-shard cap still count
    for m in sorted(new_mechs - set(seen_mech_files)):
        lines.append("VIOLATION property=%s replay=- [%s] (%d occurrences; witnesses dropped by the per-shard cap)" % (prop, m, vmechs[m]))

    verdict = "held"
    if new_mechs or new_v:
        verdict = "violated"
    elif problems:
        verdict = "inconclusive"

    wall = round(time.monotonic() - t0, 2)
    coverage = {
        "evaluations": int(evaluations),
        "distinct_nontrivial": int(len(sigs)),
        "rule": getattr(mod, "RULE", ""),
        "samples": samples or ["(no sample recorded)"],
        "monitor_evaluations": dict(sorted(monitors.items())),
        "case_classes": dict(sorted(classes.items())),
        "shards": nshards,
        "shards_truncated_by_time_cap": truncated,
        "shard_wall_s": [r["wall_s"] if r else None for r in results],
        "inconclusive_cases": len(inconclusive),
        "inconclusive_examples": inconclusive[:5],
        "verdict": verdict,
        "problems": problems,
        "violation_mechanisms": dict(vmechs),
        "known_findings_reported": known_mechs,
        "repo": str(repo_root()),
        "exhaustive": bool(getattr(mod, "EXHAUSTIVE", False)),
    }
    if notes:
        coverage["notes"] = notes
    try:
        from pv.mon.reach import summarize

        anchors = []
        for ln in (VERIF / "properties.jsonl").read_text().splitlines():
            if ln.strip() and json.loads(ln)["id"] == prop:
                anchors = json.loads(ln).get("anchors", {}).get("files", [])
        if any(r and r.get("reach") for r in results):
            coverage["reach"] = summarize(str(repo_root()), [r.get("reach") if r else None for r in results], anchors)
    except Exception as ex:  # informational only
        coverage["reach"] = {"error": repr(ex)[:300]}
    ev = {
        "property_id": prop, "tier": tier, "seed": int(seed), "level": LEVEL, "coverage": coverage,
        "assumptions": list(getattr(mod, "ASSUMPTIONS", [])), "wall_s": wall, "violations": int(vcount),
    }
    write_evidence(prop, ev)

    for ln in lines:
        print(ln)
    print("%s %s tier=%s seed=%d: %s; %d evaluations, %d distinct non-trivial, monitors=%s, wall=%.1fs" % (
        prop, getattr(mod, "TITLE", ""), tier, seed, verdict.upper(), evaluations, len(sigs),
        json.dumps(dict(sorted(monitors.items()))), wall))
    if verdict == "violated":
        return 1
    if verdict == "inconclusive":
        for p in problems:
            print("INCONCLUSIVE property=%s %s" % (prop, p))
        return 2
    return 0


def write_evidence(prop: str, ev: dict) -> None:
    try:
        import jsonschema

        schema = json.loads((VERIF / "pv" / "schemas" / "EVIDENCE.schema.json").read_text())
        jsonschema.validate(ev, schema)
    except ImportError:
        pass
    except Exception as ex:  # evidence must validate; make the failure loud but still write what we have
        print("WARNING evidence for %s does not validate: %s" % (prop, str(ex)[:400]))
    d = VERIF / "evidence"
    d.mkdir(exist_ok=True)
    (d / ("%s.json" % prop)).write_text(json.dumps(ev, indent=1, sort_keys=False) + "\n")


def run_replay(prop: str, path: str) -> int:
    ensure_deps()
    payload = json.loads(Path(path).read_text())
    hs = payload.get("hashseed") or 0
    spec = {"prop": prop, "payload": payload}
    r = subprocess.run([PYTHON, "-m", "pv.core", "--replay-child", json.dumps(spec)], env=child_env(hs), cwd=str(VERIF))
    return r.returncode


def replay_child(spec: dict) -> int:
    sys.path.append(str(DEPS))
    import_pydsdl()
    prop = spec["prop"]
    payload = spec["payload"]
    mod = importlib.import_module("pv.props.%s" % prop.lower())
    base = scratch_base()
    ctx = Ctx(prop, payload.get("tier", "quick"), payload.get("seed", 0), payload.get("shard", 0) or 0, 1, base, {})
    try:
        mod.replay(ctx, payload["case"])
    finally:
        shutil.rmtree(base, ignore_errors=True)
    if ctx.violation_count:
        for v in ctx.violations:
            print("VIOLATION property=%s replay=%s [%s] %s" % (prop, "-", v["mech"], v["detail"][:1500]))
        return 1
    print("replay of %s: no violation reproduced (monitors: %s)" % (prop, dict(ctx.monitors)))
    return 0


def main(argv=None) -> int:
    argv = list(sys.argv[1:] if argv is None else argv)
    if argv and argv[0] == "--shard":
        return shard_main(json.loads(argv[1]))
    if argv and argv[0] == "--replay-child":
        return replay_child(json.loads(argv[1]))
    if not argv:
        print(__doc__)
        return 64
    prop = argv[0].upper()
    tier = os.environ.get("VERIF_TIER") or "quick"
    replay = None
    i = 1
    while i < len(argv):
        if argv[i] == "--tier":
            tier = argv[i + 1]
            i += 2
        elif argv[i] == "--replay":
            replay = argv[i + 1]
            i += 2
        else:
            raise SystemExit("unknown argument %r" % argv[i])
    if tier not in ("quick", "thorough"):
        raise SystemExit("tier must be quick or thorough")
    seed = int(os.environ.get("VERIF_SEED", "0") or 0)
    if replay:
        return run_replay(prop, replay)
    return run_check(prop, tier, seed)


if __name__ == "__main__":
    # Run through the canonical module object: the property modules do `from pv.core import CaseTimeout`, and a class
    # defined in `__main__` would be a different class that their `except CaseTimeout` clauses cannot catch.
    from pv.core import main as _main

    sys.exit(_main())
