"""
G-bls: generator of bit length set operator trees and of the public-API call sequences that build them.
"""
from __future__ import annotations

import math

from pv.ref import bls as R


def gen_leaf(rng, big: bool):
    n = rng.choice([1, 1, 2, 2, 3, 4, 5])
    if big:
        pool = [0, 1, 7, 8, 9, 15, 16, 17, 31, 32, 33, 63, 64, 65, 255, 256, 1 << 16, (1 << 20) - 1, 1 << 20]
        vals = {rng.choice(pool) if rng.random() < 0.6 else rng.randrange(0, 1 << 20) for _ in range(n)}
    else:
        style = rng.random()
        if style < 0.3:
            vals = {8 * rng.randrange(0, 38) for _ in range(n)}
        elif style < 0.5:
            vals = {rng.choice([0, 1, 2, 3, 4, 7, 8, 9, 15, 16, 17, 24, 31, 32, 33, 63, 64, 65]) for _ in range(n)}
        else:
            vals = {rng.randrange(0, 301) for _ in range(n)}
    return ("leaf", tuple(sorted(vals)))


def gen_k(rng, big: bool) -> int:
    if not big:
        return rng.choice([0, 1, 1, 2, 2, 3, 3, 4, 5, 6])
    r = rng.random()
    if r < 0.25:
        return rng.choice([0, 1, 2, 3, 5, 8, 13])
    if r < 0.7:
        i = rng.randrange(1, 64)
        return max(0, (1 << i) + rng.choice([-1, 0, 1]))
    if r < 0.85:
        return rng.randrange(0, 1 << 63)
    return rng.choice([63, 64, 65, 127, 128, 129, 255, 256, 257, 65535, 65536, 65537, (1 << 32) - 1, 1 << 32,
                       (1 << 32) + 1, (1 << 63) - 1, 1 << 63])


def gen_align(rng, big: bool) -> int:
    r = rng.random()
    if r < 0.55:
        return rng.choice([1, 2, 4, 8, 8, 8, 16, 32, 64])
    if r < 0.95 or not big:
        return rng.randrange(1, 65)
    return rng.randrange(65, 1001)


def gen_tree(rng, depth: int, big: bool, fanout: int = 3):
    if depth <= 0 or rng.random() < 0.22:
        return gen_leaf(rng, big)
    kind = rng.choice(["concat", "concat", "union", "repeat", "range", "range", "pad"])
    if kind in ("concat", "union"):
        n = rng.randrange(2 if rng.random() < 0.9 else 1, fanout + 1)
        return (kind, tuple(gen_tree(rng, depth - 1, big, fanout) for _ in range(n)))
    if kind in ("repeat", "range"):
        return (kind, gen_tree(rng, depth - 1, big, fanout), gen_k(rng, big))
    return ("pad", gen_tree(rng, depth - 1, big, fanout), gen_align(rng, big))


def shape(t) -> str:
    k = t[0]
    if k == "leaf":
        return "L%d" % len(t[1])
    if k in ("concat", "union"):
        return "%s(%s)" % (k[0], ",".join(shape(c) for c in t[1]))
    return "%s(%s)" % ({"repeat": "r", "range": "R", "pad": "p"}[k], shape(t[1]))


def depth(t) -> int:
    if t[0] == "leaf":
        return 0
    if t[0] in ("concat", "union"):
        return 1 + max(depth(c) for c in t[1])
    return 1 + depth(t[1])


def op_kinds(t, acc=None) -> set:
    acc = set() if acc is None else acc
    acc.add(t[0])
    if t[0] in ("concat", "union"):
        for c in t[1]:
            op_kinds(c, acc)
    elif t[0] != "leaf":
        op_kinds(t[1], acc)
    return acc


def has_multivalued_leaf(t) -> bool:
    if t[0] == "leaf":
        return len(t[1]) > 1
    if t[0] in ("concat", "union"):
        return any(has_multivalued_leaf(c) for c in t[1])
    return has_multivalued_leaf(t[1])


def max_modulus(t, d: int) -> int:
    """Largest modulus the reference (and the implementation) will work in when asked for residues modulo d."""
    k = t[0]
    if k == "leaf":
        return d
    if k in ("concat", "union"):
        return max(max_modulus(c, d) for c in t[1])
    if k in ("repeat", "range"):
        return max_modulus(t[1], d)
    a = t[2]
    m = a * d if a * d <= R.PAD_PRODUCT_LIMIT else math.lcm(a, d)
    return max(m, max_modulus(t[1], m))


class Builder:
    """
    Builds a pydsdl.BitLengthSet from a tree using randomly chosen *spellings* of the public API and records every
    intermediate object together with the tree it must keep denoting (operand immutability oracle).
    """

    def __init__(self, BitLengthSet, rng):
        self.B = BitLengthSet
        self.rng = rng
        self.operands = []  # (object, actual tree)
        self.spellings = []

    def _leaf_arg(self, t):
        """A leaf may be handed over as BitLengthSet, set, list, or bare int."""
        vals = t[1]
        r = self.rng.random()
        if len(vals) == 1 and r < 0.3:
            return vals[0], False
        if r < 0.5:
            return set(vals), False
        if r < 0.6:
            return list(vals), False
        if r < 0.65:
            return frozenset(vals), False
        return None, True

    def build(self, t):
        """Returns (BitLengthSet, actual_tree)."""
        B = self.B
        k = t[0]
        if k == "leaf":
            vals = t[1]
            r = self.rng.random()
            if len(vals) == 1 and r < 0.4:
                obj = B(vals[0])
            elif r < 0.7:
                obj = B(set(vals))
            elif r < 0.85:
                obj = B(list(reversed(vals)))
            else:
                obj = B(B(vals))
            self.operands.append((obj, t))
            return obj, t
        if k in ("concat", "union"):
            kids = t[1]
            raw = []
            for c in kids:
                if c[0] == "leaf":
                    arg, need_obj = self._leaf_arg(c)
                    if need_obj:
                        o, at = self.build(c)
                        raw.append((o, at, True))
                    else:
                        raw.append((arg, c, False))
                else:
                    o, at = self.build(c)
                    raw.append((o, at, True))
            style = self.rng.random()
            if len(raw) >= 2 and style < 0.45:
                # operator chain: ((a op b) op c) ...; at least one side of each step must be a BitLengthSet
                acc, acc_t, acc_is = raw[0]
                for (o, ot, ois) in raw[1:]:
                    if not acc_is and not ois:
                        acc = B(acc)
                        self.operands.append((acc, acc_t))
                        acc_is = True
                    self.spellings.append(("+" if k == "concat" else "|") + ("" if acc_is else "r"))
                    acc = (acc + o) if k == "concat" else (acc | o)
                    acc_t = (k, (acc_t, ot))
                    acc_is = True
                    self.operands.append((acc, acc_t))
                return acc, acc_t
            self.spellings.append("concatenate" if k == "concat" else "unite")
            args = [x[0] for x in raw]
            if self.rng.random() < 0.3:
                args = iter(args)  # any iterable is accepted
            obj = B.concatenate(args) if k == "concat" else B.unite(args)
            at = (k, tuple(x[1] for x in raw))
            self.operands.append((obj, at))
            return obj, at
        child, ct = self.build(t[1])
        if k == "repeat":
            obj = child.repeat(t[2])
        elif k == "range":
            obj = child.repeat_range(t[2])
        else:
            obj = child.pad_to_alignment(t[2])
        at = (k, ct, t[2])
        self.spellings.append(k)
        self.operands.append((obj, at))
        return obj, at
