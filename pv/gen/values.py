"""
G-val / G-bytes: canonical values for type descriptions, equivalent input spellings (out-of-range numbers with the cast
mode's expected result, omitted default fields, relaxed forms) and hostile byte strings.
"""
from __future__ import annotations

import math

from pv.ref import codec as RC


def gen_number(rng, t):
    k = t[0]
    if k == "bool":
        return rng.random() < 0.5
    if k in ("uint", "byte", "utf8"):
        n = t[1] if k == "uint" else 8
        mx = (1 << n) - 1
        return rng.choice([0, 1, mx, max(0, mx - 1), mx >> 1, (mx >> 1) + 1, rng.randrange(0, mx + 1), rng.randrange(0, mx + 1)])
    if k == "int":
        n = t[1]
        lo, hi = -(1 << (n - 1)), (1 << (n - 1)) - 1
        return rng.choice([lo, lo + 1, -1, 0, 1, hi - 1, hi, rng.randrange(lo, hi + 1), rng.randrange(lo, hi + 1)])
    if k == "float":
        w = t[1]
        e, m = RC.FLOAT_FMT[w]
        r = rng.random()
        if r < 0.45:
            bits = rng.choice([
                0, 1 << (w - 1),  # +-0
                1, (1 << m) - 1,  # subnormals
                1 << m,  # smallest normal
                (((1 << e) - 2) << m) | ((1 << m) - 1),  # max finite
                (1 << (w - 1)) | (((1 << e) - 2) << m) | ((1 << m) - 1),  # -max
                ((1 << e) - 1) << m, (1 << (w - 1)) | (((1 << e) - 1) << m),  # +-inf
                (((1 << e) - 1) << m) | (1 << (m - 1)),  # quiet NaN
                ((1 << (e - 1)) - 1) << m,  # 1.0
            ])
        else:
            bits = rng.getrandbits(w)
            if ((bits >> m) & ((1 << e) - 1)) == (1 << e) - 1 and bits & ((1 << m) - 1):
                bits = (((1 << e) - 1) << m) | (1 << (m - 1))  # only the canonical NaN (payloads are not portable)
        return RC.ieee_decode(bits, w)
    raise ValueError(k)


UTF8_POOL = ["a", "Z", "0", " ", "é", "я", "€", "中", "\U0001f600", "\x00", "\x7f",
             # text that is not in canonical composition is text like any other: it is written as it is given
             "e\u0301", "\u212a", "\u2126", "\u1100\u1161", "A\u030a", "a\u0315\u0300", "\u0344", "\ufb01"]


def gen_value(rng, cd: RC.Codec, t, budget):
    """budget: mutable [remaining element count] to keep values small."""
    k = t[0]
    if k in ("fixed", "var"):
        cap = t[2]
        if k == "fixed":
            n = cap
        else:
            n = rng.choice([0, 0, 1, cap, rng.randrange(0, cap + 1), rng.randrange(0, min(cap, 6) + 1)])
            n = max(0, min(n, budget[0]))
        budget[0] -= n
        if t[1][0] == "utf8":
            s = ""
            while True:
                c = rng.choice(UTF8_POOL)
                if len((s + c).encode("utf-8")) > n:
                    break
                s += c
            return s
        if t[1][0] == "byte":
            return bytes(rng.getrandbits(8) for _ in range(n))
        return [gen_value(rng, cd, t[1], budget) for _ in range(n)]
    if k == "ref":
        return gen_composite(rng, cd, t[1], budget)
    return gen_number(rng, t)


def gen_composite(rng, cd: RC.Codec, idx, budget):
    d = cd.u[idx]
    if d["kind"] == "union":
        f = rng.choice(d["fields"]) if rng.random() < 0.8 else d["fields"][rng.choice([0, -1])]
        return {f["name"]: gen_value(rng, cd, f["type"], budget)}
    return {f["name"]: gen_value(rng, cd, f["type"], budget) for f in d["fields"] if "type" in f}


def fixed_elements(cd, t) -> int:
    """Minimum number of array elements a value of t must contain (fixed arrays multiply)."""
    k = t[0]
    if k == "fixed":
        return t[2] * max(1, fixed_elements(cd, t[1]))
    if k == "var":
        return min(t[2], 10) * fixed_elements(cd, t[1])  # generated lengths are budgeted, element content is not
    if k == "ref":
        d = cd.u[t[1]]
        subs = [fixed_elements(cd, f["type"]) for f in d["fields"] if "type" in f]
        if not subs:
            return 0
        return max(subs) if d["kind"] == "union" else sum(subs)
    return 0


# ------------------------------------------------------------------------------------------------------------------
# equivalent spellings
# ------------------------------------------------------------------------------------------------------------------
def out_of_range_spelling(rng, t, cv):
    """Returns a number != cv that must be cast to cv under t's cast mode, or None if there is none."""
    k = t[0]
    # integer fields also take Python floats: an exactly integral float stands for that integer (wrapped or clamped like
    # an int), and a float beyond the range of a saturated field is clamped - also where float(range limit) is not exact
    as_float = rng.random() < 0.35

    def exact(x):
        return float(x) if (as_float and abs(x) < 1 << 1000 and int(float(x)) == x) else x

    if k == "uint":
        n, mode = t[1], t[2]
        if mode == "trunc":
            return exact(cv + rng.choice([1, -1, 2, 1 << 10]) * (1 << n))
        if cv == (1 << n) - 1:
            if as_float:
                return rng.choice([float(1 << n), float(1 << n) * 4.0, float(1 << n) + float(1 << max(0, n - 50)) * 8, 1e20 if n <= 64 else 1e300, 1e30, 1.7e308])
            return cv + rng.choice([1, 2, 1 << n, 10 ** 30])
        if cv == 0:
            if as_float:
                return -rng.choice([1.0, 2.0, float(1 << n), 1e30, 1.7e308])
            return -rng.choice([1, 2, 1 << n, 10 ** 30])
        return exact(cv) if (as_float and exact(cv) is not cv) else None
    if k == "int":
        n = t[1]
        if cv == (1 << (n - 1)) - 1:
            if as_float:
                return rng.choice([float(1 << (n - 1)), float(1 << n), float(1 << (n - 1)) * 1.5, 1e20 if n <= 64 else 1e300, 1e30, 1.7e308])
            return cv + rng.choice([1, 2, 1 << n, 10 ** 30])
        if cv == -(1 << (n - 1)):
            if as_float:
                return -rng.choice([float(1 << (n - 1)) * 2.0, float(1 << n), float(1 << (n - 1)) * 1.5, 1e20 if n <= 64 else 1e300, 1e30, 1.7e308])
            return cv - rng.choice([1, 2, 1 << n, 10 ** 30])
        return exact(cv) if (as_float and exact(cv) is not cv) else None
    if k == "float":
        w, mode = t[1], t[2]
        if cv != cv:
            return None
        mx = RC.float_max(w)
        if mode == "sat" and abs(cv) != math.inf and abs(RC.Fraction(cv)) == mx:
            big = rng.choice([10 ** 400, 1 << 2000]) if (w == 64 or rng.random() < 0.3) else float(mx) * 4.0
            return big if cv > 0 else -big
        if mode == "trunc" and abs(cv) == math.inf:
            big = rng.choice([10 ** 400]) if (w == 64 or rng.random() < 0.3) else float(mx) * 4.0
            return big if cv > 0 else -big
        if w == 32 and abs(cv) != math.inf and abs(cv) >= 2.0 ** 56 and rng.random() < 0.6:
            # a Python int just short of the midpoint between cv and its binary32 neighbour: the nearest binary32 is still cv
            # (also at the largest finite value: below the overflow midpoint nothing overflows), although the nearest
            # binary64 is the midpoint itself - a conversion that goes through a double rounds twice
            half_ulp = 1 << (math.frexp(cv)[1] - 24 - 1)
            return int(cv) + rng.choice([1, -1]) * (half_ulp - 1)
        return None
    return None


def spell_oor(rng, cd, t, cv, counter):
    k = t[0]
    if k in ("fixed", "var"):
        if isinstance(cv, str):
            # utf8: a str, or its UTF-8 bytes
            r = rng.random()
            if r < 0.5:
                return cv
            counter[0] += 1
            return cv.encode("utf-8") if r < 0.8 else bytearray(cv.encode("utf-8"))
        if isinstance(cv, bytes):
            # byte arrays: bytes, bytearray, a list / tuple of numbers, or a str whose UTF-8 bytes are the content
            r = rng.random()
            if r < 0.4:
                return cv
            counter[0] += 1
            if r < 0.55:
                return bytearray(cv)
            if r < 0.7:
                return list(cv)
            if r < 0.85:
                return tuple(cv)
            try:
                return cv.decode("utf-8")
            except UnicodeDecodeError:
                return list(cv)
        out = [spell_oor(rng, cd, t[1], x, counter) for x in cv]
        return tuple(out) if rng.random() < 0.3 else out
    if k == "ref":
        return spell_oor_composite(rng, cd, t[1], cv, counter)
    if k in ("uint", "int", "float") and rng.random() < 0.7:
        alt = out_of_range_spelling(rng, t, cv)
        if alt is not None:
            counter[0] += 1
            return alt
    return cv


def spell_oor_composite(rng, cd, idx, cv, counter):
    d = cd.u[idx]
    types = {f["name"]: f["type"] for f in d["fields"] if "type" in f}
    return {name: spell_oor(rng, cd, types[name], v, counter) for name, v in cv.items()}


def spell_omit(rng, cd, idx, cv, counter):
    """Drops structure fields whose canonical value is the default."""
    d = cd.u[idx]
    types = {f["name"]: f["type"] for f in d["fields"] if "type" in f}
    out = {}
    for name, v in cv.items():
        t = types[name]
        if d["kind"] == "struct" and RC.same_value(v, cd.default(t)) and rng.random() < 0.8:
            counter[0] += 1
            continue
        out[name] = _omit_value(rng, cd, t, v, counter)
    return out


def _omit_value(rng, cd, t, v, counter):
    if t[0] == "ref":
        return spell_omit(rng, cd, t[1], v, counter)
    if t[0] in ("fixed", "var") and isinstance(v, list):
        return [_omit_value(rng, cd, t[1], x, counter) for x in v]
    return v


def spell_relaxed(rng, cd, idx, cv, counter):
    d = cd.u[idx]
    if d["kind"] == "union":
        (name, v), = cv.items()
        t = [f["type"] for f in d["fields"] if f.get("name") == name][0]
        return {name: _relaxed_value(rng, cd, t, v, counter)}
    fields = [f for f in d["fields"] if "type" in f]
    if len(fields) == 1:
        f = fields[0]
        inner = _relaxed_value(rng, cd, f["type"], cv[f["name"]], counter)
        if rng.random() < 0.7 and not (isinstance(inner, dict) and (not inner or f["name"] in inner)):
            counter[0] += 1
            return inner  # bare value for a single-field structure
        return {f["name"]: inner}
    if len(fields) >= 2 and rng.random() < 0.7:
        vals = [_relaxed_value(rng, cd, f["type"], cv[f["name"]], counter) for f in fields]
        # trailing defaults may be left out
        n = len(vals)
        while n > 0 and RC.same_value(cv[fields[n - 1]["name"]], cd.default(fields[n - 1]["type"])) and rng.random() < 0.6:
            n -= 1
        counter[0] += 1
        vals = vals[:n]
        return tuple(vals) if rng.random() < 0.5 else vals
    return {f["name"]: _relaxed_value(rng, cd, f["type"], cv[f["name"]], counter) for f in fields}


def _relaxed_value(rng, cd, t, v, counter):
    if t[0] == "ref":
        return spell_relaxed(rng, cd, t[1], v, counter)
    if t[0] in ("fixed", "var") and isinstance(v, list):
        out = [_relaxed_value(rng, cd, t[1], x, counter) for x in v]
        return tuple(out) if rng.random() < 0.3 else out
    return v


# ------------------------------------------------------------------------------------------------------------------
# what an application does with a received object: it changes it in place
# ------------------------------------------------------------------------------------------------------------------
def scramble(obj, rng, depth=0):
    """
    Mutates a deserialized object in place, everywhere: list elements are appended / overwritten / removed, dict values replaced,
    keys added.  The object belongs to the caller; whatever it does to it must not show in any later result of the library.
    Returns the number of mutations made.
    """
    n = 0
    if isinstance(obj, dict):
        for k in list(obj):
            n += scramble(obj[k], rng, depth + 1)
            if not isinstance(obj[k], (dict, list)) or rng.random() < 0.3:
                obj[k] = rng.choice([-5, 4660, "polluted", [42], {"zz": 1}, None, 1.5])
                n += 1
        if rng.random() < 0.5:
            obj["zz_polluted"] = [42]
            n += 1
    elif isinstance(obj, list):
        for x in obj:
            n += scramble(x, rng, depth + 1)
        r = rng.random()
        if r < 0.6 or not obj:
            obj.append(rng.choice([42, {"a": -5}, [4660], "polluted"]))
        elif r < 0.8:
            obj[rng.randrange(len(obj))] = rng.choice([77, None, {"zz": 1}])
        else:
            del obj[rng.randrange(len(obj))]
        n += 1
    return n


# ------------------------------------------------------------------------------------------------------------------
# invalid values (to be rejected): one defect at a chosen place of a valid value
# ------------------------------------------------------------------------------------------------------------------
def spoil_composite(rng, cd, idx, cv):
    """
    Returns (value, what) - cv with exactly one defect that makes it invalid for the type (an array over its capacity /
    of the wrong fixed length, a union with two or no variants, an unknown field, a non-number where a number belongs) -
    or None when the value offers no place for one. Later places are preferred: the rejection then happens after a part
    of the representation has been produced.
    """
    sites = [0]
    _spoil(cd, ("ref", idx), cv, sites, None, rng)
    if not sites[0]:
        return None
    k = max(rng.randrange(sites[0]), rng.randrange(sites[0]))
    what = []
    out = _spoil(cd, ("ref", idx), cv, [0], (k, what), rng)
    return (out, what[0]) if what else None


def _spoil(cd, t, v, sites, target, rng):
    here = sites[0]
    k = t[0]

    def hit():
        return target is not None and target[0] == here

    if k in ("fixed", "var"):
        cap = t[2]
        if cap <= 400 or k == "fixed":
            sites[0] += 1
            if hit():
                target[1].append("%s array of capacity %d with a wrong length" % (k, cap))
                if isinstance(v, str):
                    return v + "x" * (cap - len(v.encode("utf-8")) + 1) if k == "var" else v[:-1]
                if isinstance(v, bytes):
                    return v + bytes(cap - len(v) + 1) if (k == "var" or rng.random() < 0.5) else v[:-1]
                extra = [cd.default(t[1]) for _ in range(cap - len(v) + 1)]
                return list(v) + extra if (k == "var" or rng.random() < 0.5 or not v) else list(v)[:-1]
        if isinstance(v, list):
            return [_spoil(cd, t[1], x, sites, target, rng) for x in v]
        return v
    if k == "ref":
        d = cd.u[t[1]]
        types = {f["name"]: f["type"] for f in d["fields"] if "type" in f}
        sites[0] += 1
        if hit():
            out = dict(v)
            if d["kind"] == "union":
                others = [n for n in types if n not in v]
                if others and rng.random() < 0.6:
                    target[1].append("union value with two variants")
                    out[others[0]] = cd.default(types[others[0]])
                elif rng.random() < 0.5:
                    target[1].append("union value with no variant")
                    out = {}
                else:
                    target[1].append("union value with an unknown variant")
                    out = {"no_such_variant": 0}
            else:
                target[1].append("structure value with an unknown field")
                out["no_such_field"] = 0
            return out
        return {name: _spoil(cd, types[name], x, sites, target, rng) for name, x in v.items()}
    if k in ("uint", "int", "float", "bool", "byte", "utf8"):
        sites[0] += 1
        if hit():
            target[1].append("%s where a number belongs" % "a string / None / a list")
            return rng.choice(["x", None, [1], {"a": 1}])
    return v


# ------------------------------------------------------------------------------------------------------------------
# hostile byte strings
# ------------------------------------------------------------------------------------------------------------------
def gen_bytes_variants(rng, rep: bytes, max_len: int, n_random: int, n_prefix: int, n_flip: int):
    """Yields (kind, bytes)."""
    out = []
    for _ in range(n_random):
        ln = rng.choice([0, 1, 2, 3, len(rep), max(0, len(rep) - 1), len(rep) + 1, rng.randrange(0, max_len + 2)])
        style = rng.random()
        if style < 0.5:
            b = bytes(rng.getrandbits(8) for _ in range(ln))
        elif style < 0.7:
            b = bytes(rng.choice([0, 0, 0, 1, 2, 255]) for _ in range(ln))
        else:
            b = bytes(rng.choice([0, 1, 2, 3, 4, 5, 0x80, 0xFF]) for _ in range(ln))
        out.append(("random", b))
    if len(rep) <= 64:
        cuts = list(range(len(rep) + 1))
    else:
        cuts = sorted(set(rng.randrange(0, len(rep) + 1) for _ in range(64)))
    rng.shuffle(cuts)
    for c in cuts[:n_prefix]:
        out.append(("prefix", rep[:c]))
    nbits = len(rep) * 8
    if nbits:
        flips = list(range(nbits)) if nbits <= n_flip else sorted(rng.sample(range(nbits), n_flip))
        for i in flips:
            b = bytearray(rep)
            b[i // 8] ^= 1 << (i % 8)
            out.append(("bitflip", bytes(b)))
    return out
