"""
G-ns: namespace trees (several root namespaces, nested namespaces, several versions per name, .dsdl and legacy .uavcan,
dependency graphs) and the reference models R-resolve / R-order that go with them.  Never imports pydsdl.

Description:
    {"roots": [{"dir": "ws/proj/vendor", "name": "vendor"}, ...],          # roots[0] is the target root
     "defs":  [{"root": 0, "ns": ["sub"], "short": "Name", "ver": (1, 0), "port": None, "ext": ".dsdl", "id": 17,
                "refs": [{"target": 3, "spell": "absolute"|"relative", "array": None|("fixed", 2)|("var", 3)}, ...],
                "kind": "msg"|"svc", "sealed": True, "extent": None, "deprecated": False, "extra": ["@assert true"]}]}
Every definition carries `uint64 PV_ID = <id>` so that a nested type identifies the file it was resolved to.
"""
from __future__ import annotations

from pathlib import Path

# type names and namespace names in both letter cases: full-name order differs from (namespace, short name) order as soon
# as a short name sorts after the name of a sibling sub-namespace
SHORT_NAMES = ["Alpha", "Beta", "Gamma", "Delta", "Node", "Status", "Cmd", "X", "Yz", "Info", "Mode", "Abc", "ABC2", "Zeta", "nodes", "zulu", "utilx", "deeper", "b", "_x1"]
NS_NAMES = ["sub", "deep", "node", "util", "a", "b1", "port", "diag", "Motor", "Zz", "Node2", "_int"]
ROOT_NAMES = ["vendor", "acme", "zubax", "lk", "common", "regn"]


def full_name(ns, d) -> str:
    return ".".join([ns["roots"][d["root"]]["name"]] + d["ns"] + [d["short"]])


def namespace_of(ns, d) -> str:
    return ".".join([ns["roots"][d["root"]]["name"]] + d["ns"])


def file_name(d) -> str:
    base = "%s.%d.%d%s" % (d["short"], d["ver"][0], d["ver"][1], d["ext"])
    return ("%d.%s" % (d["port"], base)) if d.get("port") is not None else base


def rel_path(ns, d) -> Path:
    return Path(ns["roots"][d["root"]]["dir"], *d["ns"], file_name(d))


def ref_text(ns, d, ref) -> str:
    if "text" in ref:
        t = ref["text"]
    else:
        tgt = ns["defs"][ref["target"]]
        if ref["spell"] == "relative":
            t = "%s.%d.%d" % (tgt["short"], tgt["ver"][0], tgt["ver"][1])
        else:
            t = "%s.%d.%d" % (full_name(ns, tgt), tgt["ver"][0], tgt["ver"][1])
    arr = ref.get("array")
    if arr:
        t += "[%d]" % arr[1] if arr[0] == "fixed" else "[<=%d]" % arr[1]
    return t


def render_def(ns, d) -> str:
    lines = []
    if d.get("doc"):
        lines += ["# " + d["doc"], ""]
    if d.get("deprecated"):
        lines.append("@deprecated")
    lines.append("uint64 PV_ID = %d" % d["id"])
    for i, r in enumerate(d["refs"]):
        lines.append("%s r%d" % (ref_text(ns, d, r), i))
    lines += d.get("extra", [])
    lines.append("@sealed" if d["sealed"] else "@extent %d" % d["extent"])
    if d["kind"] == "svc":
        lines.append("---")
        lines.append("uint8 status")
        lines.append("@sealed" if d.get("resp_sealed", True) else "@extent %d" % d.get("resp_extent", 64))
    return "\n".join(lines) + "\n"


def write_namespace(ns, base: Path, texts=None):
    """Writes every definition (texts: optional {def index: replacement text}). Returns {def index: absolute path}."""
    out = {}
    for r in ns["roots"]:
        (base / r["dir"]).mkdir(parents=True, exist_ok=True)
    for i, d in enumerate(ns["defs"]):
        p = base / rel_path(ns, d)
        p.parent.mkdir(parents=True, exist_ok=True)
        p.write_text(render_def(ns, d) if not texts or i not in texts else texts[i], encoding="utf-8")
        out[i] = p
    return out


# ------------------------------------------------------------------------------------------------------------------
# reference models
# ------------------------------------------------------------------------------------------------------------------
def resolve(ns, d, ref, visible_roots=None):
    """
    R-resolve. Returns ('ok', def index) or ('error', reason).  visible_roots: root indices searched (target + lookup).
    """
    if "text" in ref:
        name, ma, mi = parse_ref_text(ref["text"])
    else:
        tgt = ns["defs"][ref["target"]]
        name = tgt["short"] if ref["spell"] == "relative" else full_name(ns, tgt)
        ma, mi = tgt["ver"]
    fn = name if "." in name else namespace_of(ns, d) + "." + name
    exact, caseonly = [], []
    for j, c in enumerate(ns["defs"]):
        if visible_roots is not None and c["root"] not in visible_roots:
            continue
        if tuple(c["ver"]) != (ma, mi):
            continue
        cn = full_name(ns, c)
        if c is d or (cn == full_name(ns, d) and tuple(c["ver"]) == tuple(d["ver"])):
            continue  # a definition never resolves to itself
        if cn == fn:
            exact.append(j)
        elif cn.lower() == fn.lower():
            caseonly.append(j)
    if len(exact) + len(caseonly) > 1:
        return ("error", "ambiguous: %d candidates" % (len(exact) + len(caseonly)))
    if caseonly:
        return ("error", "differs only by letter case")
    if not exact:
        return ("error", "not found")
    return ("ok", exact[0])


def parse_ref_text(text):
    parts = text.split(".")
    return ".".join(parts[:-2]), int(parts[-2]), int(parts[-1])


def closure(ns, start, visible_roots=None):
    """Transitive dependency closure (def indices) of the given definitions; raises KeyError on unresolvable refs."""
    seen = set()
    stack = list(start)
    path_guard = 0
    while stack:
        i = stack.pop()
        if i in seen:
            continue
        seen.add(i)
        d = ns["defs"][i]
        for r in d["refs"]:
            res = resolve(ns, d, r, visible_roots)
            if res[0] != "ok":
                raise KeyError((i, res[1]))
            stack.append(res[1])
        path_guard += 1
    return seen


def has_cycle(ns, start, visible_roots=None) -> bool:
    color = {}

    def visit(i):
        color[i] = 1
        d = ns["defs"][i]
        for r in d["refs"]:
            res = resolve(ns, d, r, visible_roots)
            if res[0] != "ok":
                continue
            j = res[1]
            if color.get(j) == 1:
                return True
            if j not in color and visit(j):
                return True
        color[i] = 2
        return False

    return any(visit(i) for i in start if i not in color)


def order_key(ns, i):
    d = ns["defs"][i]
    return (full_name(ns, d), -d["ver"][0], -d["ver"][1])


def expected_order(ns, indices):
    return sorted(indices, key=lambda i: order_key(ns, i))


# ------------------------------------------------------------------------------------------------------------------
# generator
# ------------------------------------------------------------------------------------------------------------------
def gen_namespace(rng, n_defs=None, n_roots=None, allow_services=True, allow_ports=False, uavcan_ext=True, next_id=None, same_name_lookup=None,
                  deprecated=0.0):
    n_roots = n_roots or rng.choice([1, 1, 2, 2, 3])
    names = rng.sample(ROOT_NAMES, n_roots)
    roots = []
    for i, nm in enumerate(names):
        prefix = rng.choice(["", "ws", "ws/proj", "third_party/x"])
        roots.append({"dir": (prefix + "/" if prefix else "") + nm, "name": nm})
    if same_name_lookup is None:
        same_name_lookup = rng.random() < 0.3
    if same_name_lookup:
        # the target's root namespace is defined partially in a second directory of the same name (allowed by default):
        # that directory is a lookup directory like any other
        roots.append({"dir": "elsewhere/" + roots[0]["name"], "name": roots[0]["name"]})
        n_roots += 1
    # roots must not be nested in each other: distinct leaf names under possibly shared prefixes are fine
    n_defs = n_defs or rng.randrange(3, 15)
    defs = []
    used = set()
    ident = [next_id or rng.randrange(1000, 9000)]
    for k in range(n_defs):
        for _attempt in range(20):
            root = 0 if (k < 2 or rng.random() < 0.55) else rng.randrange(n_roots)
            depth = rng.choice([0, 0, 1, 1, 2, 3])
            nsp = [rng.choice(NS_NAMES) for _ in range(depth)]
            if defs and rng.random() < 0.45:
                # another version (or a sibling) of an existing name
                o = rng.choice(defs)
                root, nsp = o["root"], list(o["ns"])
                short = o["short"] if rng.random() < 0.6 else rng.choice(SHORT_NAMES)
            else:
                short = rng.choice(SHORT_NAMES)
            ver = (rng.choice([0, 1, 1, 2, 3]), rng.choice([0, 1, 2, 5]))
            if ver == (0, 0):
                ver = (0, 1)
            rname = roots[root]["name"]  # directories of the same name contribute to ONE root namespace
            key = (rname, tuple(nsp), short.lower(), ver)
            namekey = (rname, tuple(x.lower() for x in nsp), short.lower())
            # keep names unique up to letter case within the tree (case collisions are generated on purpose elsewhere)
            clash = any((u[0], tuple(x.lower() for x in u[1]), u[2]) == namekey and (u[1] != tuple(nsp)) for u in used)
            if key in used or clash:
                continue
            # a namespace component must not coincide with a short name in the same namespace (directory vs type)
            used.add(key)
            break
        else:
            continue
        d = {"root": root, "ns": nsp, "short": short, "ver": ver, "port": None, "ext": ".uavcan" if (uavcan_ext and rng.random() < 0.1) else ".dsdl",
             "id": ident[0], "refs": [], "kind": "svc" if (allow_services and rng.random() < 0.12) else "msg", "sealed": True, "extent": None,
             "deprecated": False, "extra": []}
        ident[0] += rng.randrange(1, 7)
        defs.append(d)
    ns = {"roots": roots, "defs": defs}
    # same major version => same kind/sealing (C11 rules are not the subject here): normalise groups
    groups = {}
    for d in defs:
        groups.setdefault((roots[d["root"]]["name"], tuple(d["ns"]), d["short"], d["ver"][0]), []).append(d)
    for g in groups.values():
        for d in g:
            d["kind"] = g[0]["kind"]
    # minor versions under one major >= 1 must have equal extent and sealing (C11): such groups stay field-less leaves
    frozen = set()
    for key, g in groups.items():
        if key[3] >= 1 and len(g) > 1:
            frozen.update(id(d) for d in g)
    # references: only to definitions with a smaller index (acyclic), never to another version of oneself
    for i, d in enumerate(defs):
        if i == 0 or id(d) in frozen:
            continue
        for _ in range(rng.choice([0, 1, 1, 2, 3])):
            j = rng.randrange(i)
            t = defs[j]
            if t["kind"] == "svc":
                continue
            if full_name(ns, t) == full_name(ns, d):
                continue
            same_ns = namespace_of(ns, t) == namespace_of(ns, d)
            spell = "relative" if (same_ns and rng.random() < 0.6) else "absolute"
            arr = rng.choice([None, None, ("fixed", rng.randrange(1, 4)), ("var", rng.randrange(1, 5))])
            d["refs"].append({"target": j, "spell": spell, "array": arr})
    if deprecated:
        # a deprecated definition may be used by deprecated definitions only: the marker propagates to every referrer
        # (references point to smaller indices, so one pass in index order closes the set)
        for d in defs:
            if rng.random() < deprecated or any(defs[r["target"]]["deprecated"] for r in d["refs"]):
                d["deprecated"] = True
    return ns


def signature(ns):
    return repr([(d["root"], tuple(d["ns"]), d["short"], tuple(d["ver"]), d["port"], d["kind"],
                  tuple((r.get("target"), r.get("spell"), r.get("text")) for r in d["refs"])) for d in ns["defs"]])
