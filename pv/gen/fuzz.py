"""
G-fuzz: token-level mutations of valid definitions, character noise, targeted arithmetic / lexical corner cases and hostile
file names.  A guard keeps the *resource* cost of a mutant bounded (no exponent towers, no giant exponent literals):
those are outside "bounded length and nesting" and would only exhaust memory in CPython's big-integer arithmetic.
"""
from __future__ import annotations

import re

TOKEN_RE = re.compile(r"\s+|[A-Za-z_][A-Za-z0-9_]*|0[xX][0-9a-fA-F_]+|\d[\d_]*\.?\d*(?:[eE][+-]?\d+)?|\.\d+|'(?:[^'\\\n]|\\.)*'|\"(?:[^\"\\\n]|\\.)*\"|---+|\*\*|<=|>=|==|!=|\|\||&&|.", re.S)

DICTIONARY = [
    "@sealed", "@extent", "@union", "@deprecated", "@assert", "@print", "@", "---", "----", "truncated", "saturated", "bool", "byte",
    "utf8", "uint8", "int8", "float16", "float32", "float64", "uint64", "uint65", "uint0", "int1", "float17", "void", "void0", "void8",
    "void65", "true", "false", "_offset_", "_bit_length_", "_extent_", "min", "max", "count", "[", "]", "[<=", "[<", "{", "}", "(", ")",
    ",", ".", "=", "==", "!=", "<=", ">=", "<", ">", "+", "-", "*", "/", "%", "**", "|", "^", "&", "||", "&&", "!", "0", "1", "8", "64",
    "256", "0x", "0b2", "0o8", "1e3", "1.5", ".5", "5.", "1_0", "_1", "1__0", "''", "'", '"', "'a'", "'\\n'", "'\\u00e9'", "'\\uD800'",
    "'\\U0010FFFF'", "'\\U00110000'", "'\\z'", "'\\u12'", "#", "\t", " ", "\n", "\r\n", "\r", "\x00", "\x0b", "\x0c", "﻿", " ",
    "é", "Ω", "𝔘", "١", "pvns.T0.1.0", "pvns.T0.1", "T0.1.0", "pvns.t0.1.0", "pvns.T9.1.0", "x.y.1.0", "optional", "struct", "con",
    "_a_", "a" * 300, "9" * 40, "pvns.Svc.1.0", "Svc.1.0", "pvns.Svc.1.0[2]", "pvns.Svc.1.0[<=2]", "pvns.Svc.1.0._extent_",
]

ESCAPES = ["\\uD800", "\\uDFFF", "\\uDBFF", "\\udc00", "\\U0000D800", "\\U0000DFFF", "\\U0000dc00", "\\U0000DBFF", "\\U0010FFFF", "\\U00110000",
           "\\UFFFFFFFF", "\\U80000000", "\\u0000", "\\U00000000", "\\U00000041", "\\u0041", "\\U0001F600", "\\uD83D\\uDE00", "\\U0000D83D\\U0000DE00",
           "a\\U0000D800", "\\U0000D800a", "\\u00e9", "\\U000000e9", "\\u212a", "\\x41", "\\u+041", "\\U-0000041", "\\u 041", "\\U0000 041", "\\u0x1", "\\u1_0"]
ESCAPE_CONTEXTS = ["uint8 X = '%s'", "truncated uint8 X = '%s'", "uint16 X = '%s'", "int8 X = '%s'", "uint64 X = \"%s\"", "@print '%s'", "@assert '%s' == '%s'",
                   "@print {'%s'}", "@print '%s' + 'a'", "uint8 X = '%s' + ''", "uint8 X = '' + '%s'", "bool B = '%s' == 'a'", "bool B = '%s' != '%s'",
                   "@print {'%s', 'a'}.count", "float32 F = '%s'", "uint8['%s'] a", "@print {'%s'} == {'%s'}", "@assert {'%s'} | {'a'} == {'a', '%s'}",
                   "@print {{'%s'}, {'a'}}.count", "uint8 X = '%s'\nuint8 Y = X"]


def string_escape_statement(rng):
    """A numeric character escape of a string literal (valid, out of range, a lone / paired surrogate in either spelling) in a context that uses the value."""
    e, c = rng.choice(ESCAPES), rng.choice(ESCAPE_CONTEXTS)
    return c.replace("%s", e)


CORNER_STATEMENTS = [
    "@assert (-8) ** (1/2) == 0", "@print (10**400) ** (1/2)", "@print (10**400) ** -0.5", "@print 2 ** 0.5", "@print (-1) ** 0.5",
    "@print (-8) ** (1/3)", "@print 0 ** -1", "@print 0 ** (-1/2)", "@print 0 ** 0", "@print 0.0 ** -1", "@print (1e-400) ** -0.5",
    "@print 4 ** 0.5", "@print (1/3) ** 5000", "@print 1e400 * 1e400", "@print 1e-9999", "@print 1e9999 / 1e-9999",
    "@print '\\UFFFFFFFF'", "@print '\\U00110000'", "@print '\\U0010FFFF'", "@print '\\uD800'", "@print '\\uDFFF' + 'a'",
    "uint8 X = '\\uD800'", "uint8 X = '\\u0080'", "uint8 X = '\\u00e9'", "uint8 X = ''", "@print '\\uD800' == '\\uD800'",
    "@assert '\\uD83D\\uDE00' == '\\U0001F600'", "@print {'\\uD800'}", "uint8 X = '\\U00000041'",
    "@print 0x", "@print 0b2", "@print 0o8", "@print 1__0", "@print 1_", "@print _1", "@print 1e", "@print 1e+", "@print .", "@print 1..2",
    "uint8[1e3] a", "uint8[1.5] a", "uint8[-1] a", "uint8[10**30] a", "uint8[<=0] a", "uint8[<1] a", "uint8[<=2**64] a", "uint8[<=2**64-1] a",
    "uint8[true] a", "uint8['a'] a", "uint8[{1}] a", "uint8[] a", "uint8[<=] a", "uint8[1][2] a", "uint8[1 a", "uint8 1a", "uint8 a b",
    "@extent -8", "@extent 2**70", "@extent 1.5", "@extent true", "@extent", "@extent 8 8", "@sealed 1", "@union 1", "@deprecated 0",
    "void0", "void65", "void8 x", "uint0 a", "uint65 a", "uint999999999999 a", "float1 a", "float128 a", "int1 a", "truncated int8 a",
    "truncated bool a", "saturated bool a", "saturated byte a", "bool[2] b", "byte b", "utf8 s", "utf8[4] s", "byte[<=4] b",
    "@assert {1}.min.max == 1", "@print _offset_._offset_", "@print _offset_.count", "@print _offset_ + 1", "@print _offset_ ** 2",
    "@print {1, 2} / 0", "@print {1} / {0}", "@assert 1 / 0 == 1", "@print 1 % 0", "@print 1 % 0.0", "@print 1 | 2.5", "@print 'a' * 3",
    "@print -'a'", "@print !1", "@print true + true", "@print {true, false}.max", "@print {'a', 'b'}.min", "@print {1, 2}.count.count",
    "@print {}", "@print {1, true}", "@print {{1}, {2, 3}}.count", "@print {{1}, {true}}", "@print {{1}} == {{2}}", "@print {1} < 1",
    "@print uint8", "@print uint8._bit_length_", "@print uint8[<=3]._bit_length_.max", "@print bool._extent_", "@print uint8.foo",
    "@print uint8 + 1", "@print {uint8, int8}", "@print {uint8, int8}.count", "@print uint8 == uint8", "@print uint8 == int8",
    "@print pvns.T0.1.0", "@print pvns.T0.1.0._extent_", "@print pvns.T0.1.0.NOPE", "@print pvns.T0.1.0._bit_length_ | {7}",
    "pvns.Svc.1.0 s", "Svc.1.0[2] s", "pvns.Svc.1.0[<=3] s", "@print pvns.Svc.1.0._extent_", "@print pvns.Svc.1.0._bit_length_", "@print pvns.Svc.1.0",
    "@print pvns.Svc.1.0 == pvns.Svc.1.0", "@print {pvns.Svc.1.0}", "@union\npvns.Svc.1.0 a\nuint8 b", "@print pvns.Svc.1.0.a", "@print pvns.Svc.Request.1.0",
    "@print pvns.T0.2.0", "@print pvns.T0.1.0.1.0",
    # an existing name and major version with a minor version that does not exist (newer than all, older than all, in between)
    "pvns.T0.1.1 newer", "pvns.T0.1.255 newer", "@print pvns.T0.1.7", "pvns.T0.1.1[<=2] newer", "pvns.Svc.1.9 s", "@print pvns.Svc.1.1._extent_", "pvns.T0.1.256 newer",
    "pvns.T0.0.1 older", "pvns.T0.0.0 older", "@assert pvns.T0.1.2._extent_ > 0", "@print T0.1.0", "@print pvns.t0.1.0", "@print pvns.Main.1.0", "pvns.Main.1.0 me",
    "@foo", "@", "@ print 1", "@print", "@assert", "@assert 1", "@assert 'true'", "@print 1 2", "@print (", "@print )", "@print (1",
    "@print " + "(" * 16 + "1" + ")" * 16, "@print " + "{" * 12 + "1" + "}" * 12, "@print " + "!" * 16 + "true", "@print " + "-(" * 15 + "1" + ")" * 15,
    "@print 1" + " + 1" * 200, "@print '" + "a" * 1500 + "'", "uint8 " + "a" * 300, "uint8 _a_", "uint8 uint8", "uint8 optional", "uint8 CON",
    "uint8 a\nuint8 a", "uint8 a\nuint8 A", "uint8 X = 1\nuint8 X = 1", "uint8 X = X", "uint8 X = Y", "uint8 X = _offset_",
    "uint8 only_field_no_mode", "@union\nuint8 single_variant\n@sealed", "uint8 dup1\nuint16 dup1\n@sealed", "@extent 8\nuint64 too_big",
    "---", "---\n---", "@union", "@union\n@union", "@union\nuint8 a", "@deprecated\n@deprecated", "uint8 a\n@union", "@sealed\n@sealed",
    "@sealed\n@extent 64", "@extent 64\nuint8 a", "﻿@print 1", "\x00", "\x0c", "\x0b@print 1", "@print 1\x00", "@print 1", "@print 1",
    "@print 1 # \x00 ퟿", "# \U0001F600", "@print '\t'", "@print 'a\nb' == 'a\\nb'", "@print \"a\nb\"", "@print 'unterminated", "@print '\\'",
    # powers whose operands are beyond the range (or below the resolution) of a float, yet cheap in exact arithmetic
    "@assert (10 ** 400) ** 2 == 10 ** 800", "@print (10 ** 400) ** 0", "uint8[(10 ** 400) ** 0] x", "@assert 1e-400 ** 2 == 1e-800",
    "@print (1e-400) ** 3", "@print 1e400 ** 2", "@print (-(10 ** 400)) ** 3", "@print {10 ** 400, 1} ** 2", "@print (1e-400) ** -2",
    "@print (10 ** -400) ** 2", "@print (10 ** 400) ** -1", "@print 2 ** (10 ** 400 - 10 ** 400 + 3)", "@print (10 ** 400 / 10 ** 399) ** 2",
    "@print 1e400 ** 1", "@print (1e400 / 3) ** 1", "@print 10 ** 400 % 7 ** 2", "@print (10 ** 309) ** 1", "@print (2 ** 1024) ** 1",
    "@print (2 ** -1075) ** 1", "@print (1 / 2 ** 1075) ** 2", "@print 1e308 ** 2", "@print 1e-324 ** 2",
    "uint8 é", "uint8 Ω1", "uint٨ a", "uint8[١] a", "@print ١", "@print 1\r@print 2", "@print 1\r\n\r\n", "\r\n\r\n", "   \t  ", "#",
]


def deep_statement(rng):
    """A statement nested far deeper than any hand-written definition (recursive-descent parsing and evaluation)."""
    n = rng.choice([17, 24, 30, 36, 40, 45, 50, 60, 80, 120, 200, 400, 1000])
    style = rng.choice(["paren", "set", "neg-paren", "not-paren", "mixed", "capacity", "unbalanced", "attr", "binary-right", "binary-left", "const"])
    if style == "paren":
        e = "(" * n + "1" + ")" * n
    elif style == "set":
        e = "{" * n + "1" + "}" * n
    elif style == "neg-paren":
        e = "-(" * n + "1" + ")" * n
    elif style == "not-paren":
        e = "!(" * n + "true" + ")" * n
    elif style == "mixed":
        opens = [rng.choice(["(", "{", "-(", "1+(", "({"]) for _ in range(n)]
        e = "".join(opens) + "1" + "".join("})" if o == "({" else ("}" if o == "{" else ")") for o in reversed(opens))
    elif style == "capacity":
        return "uint8[%s] deep" % ("(" * n + "2" + ")" * n)
    elif style == "unbalanced":
        e = rng.choice(["(", "{", "-("]) * n + "1"
    elif style == "attr":
        e = "{1}" + ".count" * 1 + " + {1}.max" * n
    elif style == "binary-right":
        e = "1" + " + (1" * n + ")" * n
    elif style == "binary-left":
        e = "(" * n + "1" + " + 1)" * n
    else:
        return "uint64 DEEP = " + "(" * n + "1" + ")" * n
    return rng.choice(["@print ", "@assert 1 == ", "@assert {1} != "]) + e


def tokenize(text):
    return TOKEN_RE.findall(text)


NUM_RE = re.compile(r"0[xX][0-9a-fA-F_]+|0[bB][01_]+|0[oO][0-7_]+|(?:\d[\d_]*\.?[\d_]*|\.\d[\d_]*)(?:[eE][+-]?\d+)?")
IDENT_RE = re.compile(r"[A-Za-z_][A-Za-z0-9_]*")
LIMIT_BITS = 4e6  # results of up to ~4 Mbit are cheap for CPython's integers


def literal_size(tok):
    """(bits the literal's exact value occupies, its magnitude), rough upper bounds as floats (capped at 1e30)."""
    t = tok.replace("_", "")
    try:
        if t[:2].lower() in ("0x", "0b", "0o"):
            v = int(t, 0)
            return float(max(1, v.bit_length())), float(min(v, 10 ** 30))
        m = re.match(r"([\d.]*)(?:[eE]([+-]?\d+))?$", t)
        mant, exp = m.group(1), int(m.group(2) or 0)
        digits = len(mant.replace(".", ""))
        bits = 3.33 * (digits + abs(exp)) + 1
        try:
            mag = min(float(t), 1e30)
        except (OverflowError, ValueError):
            mag = 1e30
        return bits, mag
    except Exception:  # noqa
        return 1e30, 1e30


def risky(text) -> bool:
    """
    True if evaluating the text could exhaust memory/time in big-integer arithmetic (outside the bounded workload).
    For a line with k power operators, B = bits of its largest literal and L = value of its largest literal (literals of
    the whole text count as soon as the line mentions an identifier: constants are defined by literals): a single power
    or left-nested powers `(a ** b) ** c` need about B * L**k bits; anything else is treated as a tower a ** (b ** c).
    """
    whole = [literal_size(t) for t in NUM_RE.findall(text)] or [(3.0, 3.0)]
    g_bits, g_mag = max(b for b, _ in whole), max(m for _, m in whole)
    lines = re.split(r"[\r\n]+", text)
    power_lines = [ln for ln in lines if "**" in ln]
    for line in power_lines:
        k = line.count("**")
        lits = [literal_size(t) for t in NUM_RE.findall(line)] or [(3.0, 3.0)]
        bits, mag = max(b for b, _ in lits), max(2.0, max(m for _, m in lits))
        idents = [t for t in IDENT_RE.findall(NUM_RE.sub(" ", line)) if t not in ("true", "false", "print", "assert", "extent")]
        if idents:
            if len(power_lines) > 1:
                return True  # a constant defined through a power, used in another power
            bits, mag = max(bits, g_bits, 64.0), max(mag, g_mag, 256.0)
            if "_offset_" in line or "_bit_length_" in line or "_extent_" in line:
                mag = max(mag, 1e5)
        positions = [m.start() for m in re.finditer(r"\*\*", line)]
        left_nested = all(line[:p].rstrip().endswith(")") for p in positions[1:])
        if k == 1 or left_nested:
            if bits * mag ** k > LIMIT_BITS:
                return True
        elif k > 2 or bits * mag > 20:
            return True
    if ("_offset_" in text or "_bit_length_" in text) and re.search(r"\[[^\]\n]*\d{3,}", text):
        return True  # numerical expansion of a large layout ("effectively incomputable" by the library's own documentation)
    return False


def max_nesting(text) -> int:
    depth = best = 0
    for ch in text:
        if ch in "({[":
            depth += 1
            best = max(best, depth)
        elif ch in ")}]":
            depth = max(0, depth - 1)
    bangs = max((len(m.group(0)) for m in re.finditer(r"(?:!\s*){2,}", text)), default=0)
    return max(best, bangs)


def mutate_tokens(rng, text, n_edits):
    toks = tokenize(text)
    ops = []
    for _ in range(n_edits):
        if not toks:
            break
        i = rng.randrange(len(toks))
        op = rng.choice(["delete", "duplicate", "swap", "replace", "replace", "insert"])
        ops.append(op)
        if op == "delete":
            del toks[i]
        elif op == "duplicate":
            toks.insert(i, toks[i])
        elif op == "swap":
            j = rng.randrange(len(toks))
            toks[i], toks[j] = toks[j], toks[i]
        elif op == "replace":
            toks[i] = rng.choice(DICTIONARY)
        else:
            toks.insert(i, rng.choice(DICTIONARY))
    return "".join(toks), ops


NOISE_POOLS = [
    "abcxyzABCXYZ0189_", " \t", "\r\n", "@#.,;:=<>!&|^~%*/+-'\"\\(){}[]", "\x00\x01\x07\x08\x0b\x0c\x1b\x7f", "éÀßΩжש中𝔘​   ﻿�",
    "٠١٢٣٤٥٦٧٨٩０１２³½Ⅷ", "\U0001F600\U0010FFFF퟿",
]


def mutate_chars(rng, text, n_edits):
    chars = list(text)
    for _ in range(n_edits):
        pool = rng.choice(NOISE_POOLS)
        c = rng.choice(pool)
        i = rng.randrange(len(chars) + 1)
        op = rng.random()
        if op < 0.5 or not chars:
            chars.insert(i, c)
        elif op < 0.8:
            chars[min(i, len(chars) - 1)] = c
        else:
            del chars[min(i, len(chars) - 1)]
    return "".join(chars)


def random_noise(rng, n):
    return "".join(rng.choice(rng.choice(NOISE_POOLS)) for _ in range(n))


# ------------------------------------------------------------------------------------------------------------------
# hostile file names
# ------------------------------------------------------------------------------------------------------------------
NAME_PARTS = ["A", "Abc", "a", "_", "_x_", "0A", "A-B", "A B", " A", "é", "Ω", "uint8", "CON", "optional", "a" * 260, "", "A.B"]
NUM_PARTS = ["0", "1", "255", "256", "-1", "+1", "1_0", " 1", "1 ", "１", "٣", "1e3", "1.5", "0x1", "", "x", "99999999999999999999", "007", "8191", "8192", "511", "512",
             # characters that are digits for str.isdigit()/isnumeric() but not for int(), and other numeral look-alikes
             "²", "1²", "³0", "₂", "①", "⑩", "Ⅷ", "½", "௧", "〇", "五", "𝟙", "1\u200b", "\u0661\u0662", "1\u0660"]


def gen_file_name(rng):
    """Returns (relative path parts, description class)."""
    style = rng.random()
    ext = rng.choice([".dsdl", ".dsdl", ".dsdl", ".uavcan"])
    if style < 0.05:
        # a second file defining the same name and version as the well-formed Ok.1.0.dsdl that is always present
        twin = rng.choice(["Ok.1.0.uavcan", "7000.Ok.1.0.dsdl", "7000.Ok.1.0.uavcan", "6500.Ok.1.0.dsdl"])
        return ([rng.choice(["ok", "nested"])] if rng.random() < 0.2 else []) + [twin], "twin-of-existing"
    if style < 0.35:
        # right component count, hostile parts
        port = [rng.choice(NUM_PARTS)] if rng.random() < 0.5 else []
        comps = port + [rng.choice(NAME_PARTS), rng.choice(NUM_PARTS), rng.choice(NUM_PARTS)]
        cls = "hostile-parts"
    elif style < 0.6:
        n = rng.choice([0, 1, 2, 5, 6])
        comps = [rng.choice(NAME_PARTS + NUM_PARTS) for _ in range(n)]
        cls = "component-count-%d" % n
    elif style < 0.8:
        comps = ["T", "1", "0"]
        cls = "hostile-directory"
    else:
        comps = [rng.choice(["A", "Bc"]), str(rng.choice([0, 1, 255])), str(rng.choice([0, 1, 255]))]
        if rng.random() < 0.5:
            comps = [str(rng.choice([0, 8191, 7168, 6144, 511, 100000]))] + comps
        cls = "well-formed"
    if rng.random() < 0.08:
        comps = [""] + comps  # hidden file / sidecar: leading dot gives an empty first field
    name = ".".join(comps) + ext
    dirs = []
    if cls == "hostile-directory":
        dirs = [rng.choice(["sub.dir", "a b", "é", "0num", "uint8", "_x_", "CON", "a-b", " lead", "UPPER", "ok"]) for _ in range(rng.choice([1, 2]))]
    elif rng.random() < 0.4:
        dirs = [rng.choice(["ok", "nested", "deep"]) for _ in range(rng.choice([1, 2, 3, 4]))]
    name = name.replace("/", "_").replace("\x00", "_")
    if name in (".", "..") or not name:
        name = "x" + ext
    return dirs + [name], cls
