"""
G-def: definition descriptions (statement lists with comments), their expected model signature (computed structurally,
independent of pydsdl) and seeded *formatting policies* that render the same description in many spellings.

A definition description:
    {"sections": [section, ...] (1 = message, 2 = service), "deprecated": bool}
    section = {"union": bool, "header": [comment, ...], "header_sep": "blank"|"direct",
               "items": [item, ...], "sealed": bool, "extent": int|None, "sealed_pos": int}
    item    = {"kind": "field"|"pad"|"const"|"assert"|"print", "toks": [...], "same": str|None, "follow": [str, ...],
               "blank_after": bool, "orphan": [str, ...], ... kind-specific keys}
Statement tokens: strings, with separators R (blank required), O (blank optional) between them.
"""
from __future__ import annotations

from fractions import Fraction

from pv.gen import types as GT
from pv.ref import bls as RB
from pv.ref.layout import Layout

R, O = object(), object()  # separators: required / optional run of blanks


# ------------------------------------------------------------------------------------------------------------------
# tokens
# ------------------------------------------------------------------------------------------------------------------
def int_literal(rng, v: int):
    """Token for a non-negative integer in a random base with optional digit separators."""
    assert v >= 0
    base = rng.choice(["d", "d", "d", "x", "b", "o"])
    if base == "d":
        s = str(v)
        if len(s) > 3 and rng.random() < 0.5:
            s = s[0] + "_" + s[1:] if rng.random() < 0.5 else s[:-3] + "_" + s[-3:]
        return s
    if base == "x":
        s = "%x" % v
        if rng.random() < 0.5:
            s = s.upper()
        if len(s) > 2 and rng.random() < 0.4:
            s = s[:-2] + "_" + s[-2:]
        return ("0x" if rng.random() < 0.7 else "0X") + s
    if base == "b":
        if v > 1 << 24:
            return str(v)
        s = bin(v)[2:]
        if len(s) > 4 and rng.random() < 0.5:
            s = s[:-4] + "_" + s[-4:]
        return ("0b" if rng.random() < 0.7 else "0B") + s
    s = oct(v)[2:]
    return ("0o" if rng.random() < 0.7 else "0O") + s


def int_expr(rng, v: int):
    """Token list evaluating exactly to the integer v."""
    r = rng.random()
    if v < 0:
        return ["-", O, int_literal(rng, -v)] if r < 0.8 else ["0", O, "-", O, int_literal(rng, -v)]
    if r < 0.7:
        return [int_literal(rng, v)]
    if r < 0.8 and v > 0:
        a = rng.randrange(0, v + 1)
        return [int_literal(rng, a), O, "+", O, int_literal(rng, v - a)]
    if r < 0.9:
        return ["(", O, int_literal(rng, v), O, ")"]
    return ["+", O, int_literal(rng, v)]


def real_expr(rng, fr: Fraction):
    """Token list evaluating exactly to the rational fr."""
    neg = fr < 0
    a = -fr if neg else fr
    toks = None
    den = a.denominator
    # decimal point notation if the denominator is 2^a 5^b
    d2 = den
    while d2 % 2 == 0:
        d2 //= 2
    while d2 % 5 == 0:
        d2 //= 5
    if d2 == 1 and rng.random() < 0.7 and den < 10 ** 12:
        digits = 0
        x = a
        while x.denominator != 1:
            x *= 10
            digits += 1
        s = str(x.numerator).rjust(digits + 1, "0")
        ip, fp = (s[:-digits], s[-digits:]) if digits else (s, "")
        style = rng.random()
        if digits == 0:
            toks = [ip + "."] if style < 0.4 else ([ip + ".0"] if style < 0.7 else [ip + "e0"])
        elif ip.strip("0") == "" and style < 0.4:
            toks = ["." + fp]
        elif style < 0.75:
            toks = [ip + "." + fp]
        else:
            toks = ["%s%se-%d" % (ip.lstrip("0") or "", fp, digits)] if (ip.lstrip("0") + fp).strip("0") else ["0.0"]
            if toks[0][0] == "e":
                toks = [ip + "." + fp]
    if toks is None:
        toks = [int_literal(rng, a.numerator), O, "/", O, int_literal(rng, a.denominator)]
        if neg:
            return ["-", O, "("] + toks + [")"]
    return (["-", O] + toks) if neg else toks


CHAR_POOL = "aZ09 ~!@#$%^&*()[]{}<>?/|;:,._-+="


def const_value_and_tokens(rng, t, known):
    """known: list of (name, value, type) of earlier constants in this section. Returns (value, tokens, classes)."""
    k = t[0]
    if k == "bool":
        v = rng.random() < 0.5
        if rng.random() < 0.25:
            return v, (["!", O, "false"] if v else ["!", O, "true"]), ["const-bool-not"]
        return v, ["true" if v else "false"], ["const-bool"]
    if k in ("uint", "int"):
        n = t[1]
        lo, hi = (0, (1 << n) - 1) if k == "uint" else (-(1 << (n - 1)), (1 << (n - 1)) - 1)
        v = rng.choice([lo, hi, 0 if lo <= 0 <= hi else lo, rng.randrange(lo, hi + 1), rng.randrange(lo, hi + 1)])
        if k == "uint" and n == 8 and rng.random() < 0.3:
            ch = rng.choice(CHAR_POOL)
            q = rng.choice("'\"")
            return ord(ch), [q + ch + q], ["const-char"]
        refs = [(nm, val) for nm, val, ty in known if ty in ("uint", "int") and lo <= val <= hi]
        if refs and rng.random() < 0.2:
            nm, val = rng.choice(refs)
            if lo <= val + 1 <= hi and rng.random() < 0.5:
                return val + 1, [nm, O, "+", O, "1"], ["const-ref"]
            return val, [nm], ["const-ref"]
        return v, int_expr(rng, v), ["const-int"]
    if k == "float":
        mx = {16: Fraction(65504), 32: Fraction(2) ** 127 * (2 - Fraction(1, 1 << 23)), 64: Fraction(2) ** 1023 * (2 - Fraction(1, 1 << 52))}[t[1]]
        r = rng.random()
        if r < 0.15:
            v = rng.choice([mx, -mx])
            return v, (["-", O] if v < 0 else []) + [str(mx)], ["const-float-limit"]
        if r < 0.5:
            v = Fraction(rng.randrange(-50000, 50000), rng.choice([1, 2, 4, 5, 8, 10, 100, 1000]))
        elif r < 0.8:
            v = Fraction(rng.randrange(-999, 999), rng.choice([3, 7, 9, 11, 13]))
        else:
            v = Fraction(rng.randrange(-9, 10))
        if abs(v) > mx:
            v = Fraction(1, 3)
        return v, real_expr(rng, v), ["const-real"]
    raise ValueError(k)


def type_tokens(rng, t, u):
    """Token list for a type; cast mode spelled randomly; array brackets with optional blanks."""
    k = t[0]
    if k in ("fixed", "var"):
        base = type_tokens(rng, t[1], u)
        if k == "fixed":
            return base + [O, "[", O] + int_expr(rng, t[2]) + [O, "]"]
        if rng.random() < 0.4:
            return base + [O, "[", O, "<", O] + int_expr(rng, t[2] + 1) + [O, "]"]
        return base + [O, "[", O, "<=", O] + int_expr(rng, t[2]) + [O, "]"]
    if k == "uint":
        return ["truncated", R, "uint%d" % t[1]] if t[2] == "trunc" else (["saturated", R, "uint%d" % t[1]] if rng.random() < 0.4 else ["uint%d" % t[1]])
    if k == "int":
        return ["saturated", R, "int%d" % t[1]] if rng.random() < 0.4 else ["int%d" % t[1]]
    if k == "float":
        return ["truncated", R, "float%d" % t[1]] if t[2] == "trunc" else (["saturated", R, "float%d" % t[1]] if rng.random() < 0.4 else ["float%d" % t[1]])
    return [GT.render_type(t, u)]


COMMENT_WORDS = ["speed", "of", "light", "m/s", "TODO", "see", "§4.2", "#hash", "units:", "rad", "naïve", "Ω", "x = 1", "@sealed", "uint8 y", "---", "'quote", "tab\tinside"]


def gen_comment(rng):
    n = rng.choice([0, 1, 1, 2, 3])
    out = " ".join(rng.choice(COMMENT_WORDS) for _ in range(n))
    if n and rng.random() < 0.12:
        out += rng.choice(["  ", " ", "\t"])  # blanks after the comment text belong to the comment (grammar)
    if n and rng.random() < 0.08:
        out = " " + out  # extra leading blank survives too ("#  x" -> " x")
    return out


def gen_comment_block(rng, lo, hi):
    return [gen_comment(rng) for _ in range(rng.randrange(lo, hi + 1))]


# ------------------------------------------------------------------------------------------------------------------
# description generator
# ------------------------------------------------------------------------------------------------------------------
def gen_section(rng, u, sec_no, max_items=7):
    union = rng.random() < 0.25
    items = []
    known = []
    n = rng.choice([0, 1, 2, 3, 4, 5, max_items])
    n_fields = 0
    ftypes = []
    for j in range(n):
        r = rng.random()
        if r < 0.5 or (union and n_fields < 2 and j >= n - 2):
            t = GT.gen_type(rng, len(u), 1, True, True)
            name = "s%df%d" % (sec_no, j)
            caps = [(nm, val) for nm, val, ty in known if 1 <= val <= 64]
            if t[0] in ("fixed", "var") and caps and rng.random() < 0.5:
                # the capacity is spelled through a constant of this section
                nm, val = rng.choice(caps)
                t = (t[0], t[1], val)
                toks = type_tokens(rng, t[1], u) + [O, "[", O] + ([] if t[0] == "fixed" else ["<=", O]) + [nm, O, "]"]
                it = {"kind": "field", "type": t, "name": name, "toks": toks + [R, name]}
            else:
                it = {"kind": "field", "type": t, "name": name, "toks": type_tokens(rng, t, u) + [R, name]}
            n_fields += 1
            ftypes.append(t)
        elif r < 0.62 and not union:
            w = rng.choice([1, 2, 3, 7, 8, 13, 16, 32, 64])
            it = {"kind": "pad", "width": w, "toks": ["void%d" % w]}
            ftypes.append(("void", w))
        elif r < 0.9:
            t = rng.choice([("bool",), ("uint", rng.randrange(1, 65), rng.choice(["sat", "trunc"])), ("uint", 8, "sat"),
                            ("int", rng.randrange(2, 65)), ("float", rng.choice([16, 32, 64]), rng.choice(["sat", "trunc"]))])
            # some constant names are shared by the sections of a service (each section is a name space of its own)
            name = ("K%d" % j) if rng.random() < 0.4 else "S%dC%d" % (sec_no, j)
            if rng.random() < 0.3:
                t = rng.choice([("uint", 8, "sat"), ("uint", 7, "trunc"), ("int", 8), ("uint", 16, "sat")])
            val, vt, cls = const_value_and_tokens(rng, t, known)
            if t[0] in ("uint", "int") and cls == ["const-int"] and rng.random() < 0.35:
                val = rng.randrange(1, 40) if t[1] >= 7 else val
                vt = int_expr(rng, val) if t[1] >= 7 else vt
            it = {"kind": "const", "type": t, "name": name, "value": val, "classes": cls,
                  "toks": type_tokens(rng, t, u) + [R, name, O, "=", O] + vt}
            if t[0] in ("uint", "int"):
                known.append((name, val, t[0]))
        else:
            if known and rng.random() < 0.5:
                nm, val, _ty = rng.choice(known)
                it = {"kind": "assert", "toks": ["@assert", R, nm, O, "==", O] + (["(", O] + int_expr(rng, val) + [O, ")"] if val >= 0 else ["-", O, int_literal(rng, -val)])}
            elif rng.random() < 0.5:
                it = {"kind": "assert", "toks": ["@assert", R] + rng.choice([["true"], ["1", O, "+", O, "1", O, "==", O, "2"], ["!", O, "false"], ["2", O, "**", O, "10", O, "==", O, "1024"]])}
            else:
                it = {"kind": "print", "toks": ["@print", R] + rng.choice([["1", O, "+", O, "1"], ["'text'"], ["true"], ["{", O, "1", O, ",", O, "2", O, "}"]])}
        items.append(it)
    if union:
        while n_fields < 2:
            t = GT.gen_primitive(rng)
            name = "s%dv%d" % (sec_no, len(items))
            items.append({"kind": "field", "type": t, "name": name, "toks": type_tokens(rng, t, u) + [R, name]})
            ftypes.append(t)
            n_fields += 1
    # comments
    for it in items:
        attr = it["kind"] in ("field", "pad", "const")
        it["same"] = gen_comment(rng) if rng.random() < 0.4 else None
        it["follow"] = gen_comment_block(rng, 1, 2) if (attr and rng.random() < 0.3) else []
        it["blank_after"] = rng.random() < 0.35
        it["orphan"] = gen_comment_block(rng, 1, 2) if (it["blank_after"] and rng.random() < 0.4) else []
        it["orphan_blank_after"] = rng.random() < 0.5
    sec = {"union": union, "items": items, "header": gen_comment_block(rng, 1, 3) if rng.random() < 0.5 else [],
           "header_sep": rng.choice(["blank", "direct"]), "ftypes": ftypes}
    return sec


def finish_sections(rng, desc, u):
    """Chooses @sealed / @extent (valid by construction) once field types are known."""
    cand = u + [None]
    for si, sec in enumerate(desc["sections"]):
        d = {"name": "pvns.Tmp", "ver": (1, 0), "kind": "union" if sec["union"] else "struct",
             "fields": [({"pad": t[1]} if t[0] == "void" else {"name": "x%d" % i, "type": t}) for i, t in enumerate(sec["ftypes"])],
             "sealed": True, "extent": None}
        cand[-1] = d
        lay = Layout(cand)
        mx = RB.ref_max(lay.inner_tree(d))
        sec["inner_max"] = mx
        if rng.random() < 0.55:
            sec["sealed"], sec["extent"] = True, None
            sec["sealed_pos"] = rng.choice([0, len(sec["items"]), len(sec["items"]), rng.randrange(len(sec["items"]) + 1)])
            sec["mode_toks"] = ["@sealed"]
        else:
            sec["sealed"] = False
            sec["extent"] = mx + 8 * rng.choice([0, 0, 1, 8, 100])
            sec["sealed_pos"] = len(sec["items"])
            e = sec["extent"]
            style = rng.random()
            if style < 0.5 or e == 0:
                et = int_expr(rng, e)
            elif style < 0.8:
                et = ["(", O] + int_expr(rng, e // 8) + [O, ")", O, "*", O, "8"]
            else:
                et = ["8", O, "*", O, "("] + int_expr(rng, e // 8) + [")"]
            sec["mode_toks"] = ["@extent", R] + et
        sec["mode_same"] = gen_comment(rng) if rng.random() < 0.3 else None


def gen_definition(rng, u, service=None):
    service = (rng.random() < 0.25) if service is None else service
    desc = {"sections": [gen_section(rng, u, 0)] + ([gen_section(rng, u, 1)] if service else []),
            "deprecated": rng.random() < 0.15}
    finish_sections(rng, desc, u)
    return desc


# ------------------------------------------------------------------------------------------------------------------
# expected signature (computed from the description only)
# ------------------------------------------------------------------------------------------------------------------
def doc_of(comments):
    return "\n".join(comments)


def expected_signature(desc, u):
    out = {"service": len(desc["sections"]) == 2, "deprecated": desc["deprecated"], "sections": []}
    for sec in desc["sections"]:
        fields, consts = [], []
        for it in sec["items"]:
            doc = doc_of(([it["same"]] if it["same"] is not None else []) + it["follow"])
            if it["kind"] == "field":
                fields.append(("%s %s" % (GT.canonical_type(it["type"], u), it["name"]), doc))
            elif it["kind"] == "pad":
                fields.append(("void%d" % it["width"], doc))
            elif it["kind"] == "const":
                v = it["value"]
                consts.append(("%s %s" % (GT.canonical_type(it["type"], u), it["name"]), v if isinstance(v, bool) else Fraction(v), doc))
        out["sections"].append({
            "kind": "union" if sec["union"] else "struct", "sealed": sec["sealed"],
            "extent": sec["inner_max"] if sec["sealed"] else sec["extent"],
            "fields": fields, "constants": consts, "doc": doc_of(sec["header"]),
        })
    return out


def model_signature(pydsdl, t, with_docs=True):
    """Signature of a returned model in the same shape as expected_signature()."""
    secs = [t.request_type, t.response_type] if isinstance(t, pydsdl.ServiceType) else [t]
    out = {"service": isinstance(t, pydsdl.ServiceType), "deprecated": t.deprecated, "sections": []}
    for s in secs:
        inner = s.inner_type
        fields = [(str(f), f.doc if with_docs else "") for f in s.fields]
        consts = []
        for c in s.constants:
            v = c.value.native_value
            label = "%s %s" % (c.data_type, c.name)
            if str(c) != "%s = %s" % (label, ("true" if v else "false") if isinstance(v, bool) else str(Fraction(v))):
                label = "<bad str(constant): %r>" % str(c)
            consts.append((label, v if isinstance(v, bool) else Fraction(v), c.doc if with_docs else ""))
        # attributes must be fields followed by constants, each in order
        attrs = [("%s %s" % (a.data_type, a.name)).strip() for a in s.attributes]
        if attrs != [x[0] for x in fields] + [x[0] for x in consts]:
            fields.append(("<attributes out of order: %r>" % attrs, ""))
        out["sections"].append({
            "kind": "union" if isinstance(inner, pydsdl.UnionType) else "struct",
            "sealed": not isinstance(s, pydsdl.DelimitedType), "extent": s.extent,
            "fields": fields, "constants": consts, "doc": s.doc if with_docs else "",
        })
    return out


def strip_docs(sig):
    out = {"service": sig["service"], "deprecated": sig["deprecated"], "sections": []}
    for s in sig["sections"]:
        out["sections"].append(dict(s, fields=[(f[0], "") for f in s["fields"]],
                                    constants=[(c[0], c[1], "") for c in s["constants"]], doc=""))
    return out


# ------------------------------------------------------------------------------------------------------------------
# rendering under a formatting policy
# ------------------------------------------------------------------------------------------------------------------
class Policy:
    def __init__(self, rng, plain=False, **force):
        self.rng = rng
        self.plain = plain
        self.crlf = False if plain else rng.random() < 0.3
        self.final_newline = True if plain else rng.random() < 0.5
        self.wide = False if plain else rng.random() < 0.6
        self.trailing = False if plain else rng.random() < 0.5
        self.ws_blank_lines = False if plain else rng.random() < 0.4
        self.extra_orphans = False if plain else rng.random() < 0.4
        self.hash_space = True
        self.leading_blank = False if plain else rng.random() < 0.3   # empty lines above the header comment of a section
        for k, v in force.items():
            setattr(self, k, v)

    def name(self):
        return ",".join(k for k in ("crlf", "final_newline", "wide", "trailing", "ws_blank_lines", "extra_orphans", "leading_blank") if getattr(self, k)) or "plain"

    def sepR(self):
        return self.rng.choice([" ", "  ", "\t", " \t ", "    "]) if self.wide else " "

    def sepO(self, default=""):
        return self.rng.choice(["", " ", "  ", "\t"]) if self.wide else default

    def join(self, toks):
        out = []
        for i, t in enumerate(toks):
            if t is R:
                out.append(self.sepR())
            elif t is O:
                # the plain policy writes binary operators with one blank on each side for readability
                nxt = toks[i + 1] if i + 1 < len(toks) else ""
                prv = toks[i - 1] if i > 0 else ""
                tight = prv in ("(", "[", "{", "!", "@") or nxt in (")", "]", "}", ",", "[") or prv in ("-", "+") and (i < 2 or toks[i - 2] in (O, R, "(", "="))
                out.append(self.sepO("" if tight else " "))
            else:
                out.append(t)
        return "".join(out)

    def comment(self, text):
        if text == "" or (self.wide and self.rng.random() < 0.3 and not text.startswith(" ")):
            return "#" + text
        return "# " + text

    def stmt_line(self, toks, same):
        s = self.join(toks)
        if same is not None:
            gap = self.rng.choice([" ", "  ", "\t", ""]) if self.wide else " "
            return s + gap + self.comment(same)
        if self.trailing:
            return s + self.rng.choice(["", " ", "  ", "\t", " \t"])
        return s

    def blank(self):
        if self.ws_blank_lines:
            return self.rng.choice(["", " ", "   ", "\t", " \t "])
        return ""


def render(desc, policy: Policy, ending=None):
    """
    Returns (text, line_map) where line_map[(section, item index)] = 1-based line of that statement.
    ending: None or one of "blank", "comment" to force what the last line is (otherwise the last statement).
    """
    lines = []
    line_map = {}
    p = policy

    def orphan_block():
        if p.extra_orphans and p.rng.random() < 0.5:
            lines.append(p.blank())
            for c in gen_comment_block(p.rng, 1, 2):
                lines.append(p.comment(c))
            lines.append(p.blank())

    for si, sec in enumerate(desc["sections"]):
        if si == 1:
            lines.append(p.stmt_line(["---" + ("-" * p.rng.randrange(0, 4) if p.wide else "")], None))
        if p.leading_blank and p.rng.random() < 0.7:
            for _ in range(p.rng.choice([1, 1, 2])):
                lines.append(p.blank())
        for c in sec["header"]:
            lines.append(p.comment(c))
        if sec["header"] and sec["header_sep"] == "blank":
            lines.append(p.blank())
        if sec["header"]:
            orphan_block() if sec["header_sep"] == "blank" else None
        pre = []
        if sec["union"]:
            pre.append(["@union"])
        if si == 0 and desc["deprecated"]:
            pre.append(["@deprecated"])
        if len(pre) == 2 and p.rng.random() < 0.5:
            pre.reverse()
        for toks in pre:
            lines.append(p.stmt_line(toks, None))
        items = sec["items"]
        for j in range(len(items) + 1):
            if j == sec["sealed_pos"]:
                lines.append(p.stmt_line(sec["mode_toks"], sec["mode_same"]))
                line_map[(si, "mode")] = len(lines)
            if j == len(items):
                break
            it = items[j]
            lines.append(p.stmt_line(it["toks"], it["same"]))
            line_map[(si, j)] = len(lines)
            for c in it["follow"]:
                lines.append(p.comment(c))
            if it["blank_after"]:
                lines.append(p.blank())
                for c in it["orphan"]:
                    lines.append(p.comment(c))
                if it["orphan"] and it["orphan_blank_after"]:
                    lines.append(p.blank())
                orphan_block()
    if ending == "blank":
        lines.append(p.blank())
    elif ending == "comment":
        # a trailing comment must not attach to a preceding attribute: fence it with a blank line
        lines.append(p.blank())
        lines.append(p.comment("trailing remark"))
    eol = "\r\n" if p.crlf else "\n"
    text = eol.join(lines) + (eol if p.final_newline else "")
    return text, line_map


def canonical_text(pydsdl, t):
    """Renders a returned model back to DSDL (the 'canonical round trip' of C03)."""
    secs = [t.request_type, t.response_type] if isinstance(t, pydsdl.ServiceType) else [t]
    out = []
    for i, s in enumerate(secs):
        if i:
            out.append("---")
        if s.doc:
            out += ["# " + ln if ln else "#" for ln in s.doc.split("\n")]
            out.append("")
        if isinstance(s.inner_type, pydsdl.UnionType):
            out.append("@union")
        if i == 0 and t.deprecated:
            out.append("@deprecated")
        for a in list(s.fields) + list(s.constants):
            line = str(a)
            dl = a.doc.split("\n") if a.doc else []
            if dl:
                line += " # " + dl[0] if dl[0] else " #"
            out.append(line)
            out += ["# " + ln if ln else "#" for ln in dl[1:]]
            if dl:
                out.append("")
        out.append("@extent %d" % s.extent if isinstance(s, pydsdl.DelimitedType) else "@sealed")
    return "\n".join(out) + "\n"
