"""
G-type: generator of type universes (see pv/ref/layout.py for the description format), their DSDL rendering and the two
build routes (text -> read_namespace, and the public constructors).
"""
from __future__ import annotations

from pathlib import Path

from pv.ref import bls as R
from pv.ref.layout import Layout

BOUNDARY_CAPS = [1, 2, 3, 7, 8, 255, 256, 257, 65535, 65536, 65537, (1 << 32) - 1, 1 << 32, (1 << 32) + 1, 1 << 63]
ROOT = "pvns"


def gen_primitive(rng, small=False):
    r = rng.random()
    if r < 0.08:
        return ("bool",)
    if r < 0.50:
        n = rng.choice([1, 2, 3, 7, 8, 9, 15, 16, 17, 31, 32, 33, 63, 64]) if rng.random() < 0.5 else rng.randrange(1, 65)
        return ("uint", n, rng.choice(["sat", "trunc"]))
    if r < 0.78:
        n = rng.choice([2, 3, 7, 8, 9, 15, 16, 17, 31, 32, 33, 63, 64]) if rng.random() < 0.5 else rng.randrange(2, 65)
        return ("int", n)
    return ("float", rng.choice([16, 32, 64]), rng.choice(["sat", "trunc"]))


def gen_capacity(rng, small: bool) -> int:
    if small:
        return rng.choice([1, 1, 2, 2, 3, 4, 5, 7, 8]) if rng.random() < 0.85 else rng.choice([255, 256, 257, 300])
    r = rng.random()
    if r < 0.45:
        return rng.choice(BOUNDARY_CAPS)
    if r < 0.8:
        return rng.randrange(1, 20)
    if r < 0.9:
        return rng.randrange(1, 100000)
    return rng.randrange(1, 1 << 63)


def gen_type(rng, n_prev: int, depth: int, small: bool, text_ok: bool, allow_ref=True):
    """A field type. text_ok: restrict to what DSDL text can spell (no arrays of arrays)."""
    r = rng.random()
    if depth > 0 and r < 0.40:
        kind = rng.choice(["fixed", "var"])
        er = rng.random()
        if er < 0.12:
            elem = ("byte",)
        elif er < 0.2 and kind == "var":
            elem = ("utf8",)
        elif er < 0.3 and not text_ok:
            elem = gen_type(rng, n_prev, depth - 1, small, text_ok, allow_ref)
            if elem[0] not in ("fixed", "var"):
                elem = ("var", elem, gen_capacity(rng, True))
        elif er < 0.55 and n_prev > 0 and allow_ref:
            elem = ("ref", rng.randrange(n_prev))
        else:
            elem = gen_primitive(rng, small)
        return (kind, elem, gen_capacity(rng, small))
    if r < 0.62 and n_prev > 0 and allow_ref:
        return ("ref", rng.randrange(n_prev))
    return gen_primitive(rng, small)


def lookalike_cluster(rng, i0: int) -> list:
    """
    Definitions whose bit length sets are DIFFERENT but agree in min, max and residues modulo 32 - exactly what pydsdl's
    approximate BitLengthSet equality / hash cannot tell apart - followed by one definition that uses them side by side in the
    same roles (arrays of equal capacity, variants of one union in a random order, consecutive fields).  Anything that keys a
    cache or a de-duplication on set equality confuses them.
    Dense: uint32[<=2n] -> {8+32j}; half: uint64[<=n] -> {8+64j}; sparse: union{Empty, uint64[n]} -> {8, 8+64n}.
    """
    n = rng.choice([1, 2, 2, 3, 4])
    nm = lambda k: "%s.T%d" % (ROOT, i0 + k)  # noqa
    mk = lambda k, kind, fields: {"name": nm(k), "ver": (1, 0), "kind": kind, "fields": fields, "sealed": True, "extent": None, "lookalike": True}  # noqa
    mode = rng.choice(["sat", "trunc"])
    defs = [
        mk(0, "struct", []),
        mk(1, "struct", [{"name": "d%df0" % (i0 + 1), "type": ("var", ("uint", 32, mode), 2 * n)}]),
        mk(2, "struct", [{"name": "d%df0" % (i0 + 2), "type": ("var", ("uint", 64, mode), n)}]),
        mk(3, "union", [{"name": "d%dv0" % (i0 + 3), "type": ("ref", i0)}, {"name": "d%dv1" % (i0 + 3), "type": ("fixed", ("uint", 64, mode), n)}]),
    ]
    members = [i0 + 1, i0 + 2, i0 + 3]
    rng.shuffle(members)
    if rng.random() < 0.4:
        members = members[:2]
    i = i0 + 4
    shape = rng.choice(["arrays-fixed", "arrays-var", "union", "fields", "mixed"])
    cap = rng.choice([1, 2, 2, 3])
    fields = []
    if shape == "union":
        fields = [{"name": "d%dv%d" % (i, j), "type": ("ref", m)} for j, m in enumerate(members)]
        user = mk(4, "union", fields)
    else:
        for j, m in enumerate(members):
            if shape == "arrays-fixed" or (shape == "mixed" and j % 2 == 0):
                t = ("fixed", ("ref", m), cap)
            elif shape == "arrays-var" or shape == "mixed":
                t = ("var", ("ref", m), cap)
            else:
                t = ("ref", m)
            fields.append({"name": "d%df%d" % (i, j), "type": t})
        if rng.random() < 0.6:
            fields.append({"name": "d%dtail" % i, "type": rng.choice([("uint", 8, "sat"), ("bool",), ("uint", 3, "trunc"), ("ref", members[0])])})
        user = mk(4, "struct", fields)
    return defs + [user]


def gen_consts(rng, i: int, nf: int) -> list:
    out = []
    for j in range(rng.choice([1, 1, 2, 3])):
        k = rng.choice(["uint8", "int16", "bool"])
        v = {"uint8": lambda: rng.choice([0, 1, 255, rng.randrange(256)]), "int16": lambda: rng.choice([-32768, -1, 0, 32767]), "bool": lambda: rng.random() < 0.5}[k]()
        out.append({"after": rng.randrange(nf + 1), "ctype": k, "name": "D%dK%d" % (i, j), "value": v})
    return out


def gen_universe(rng, n_defs=None, small=False, text_ok=True, max_fields=6, cost_budget=60000, divisors=(1, 8, 32),
                 force_union_variants=None, lookalike=None, consts=False):
    """
    Returns a list of composite definitions, each referencing only earlier ones; every definition passes the
    implementation-cost predictor for the divisors the constructors and __eq__ use.
    lookalike: prepend a cluster of look-alike definitions (see lookalike_cluster); default: one universe in six when the
    caller does not fix the number of definitions.
    consts: a third of the definitions additionally carry 1-3 constants between their fields (attributes that are not fields:
    they take no part in the layout, the tag numbering or the wire format).
    """
    if lookalike is None:
        lookalike = n_defs is None and force_union_variants is None and rng.random() < 1 / 6
    n_defs = n_defs or rng.randrange(1, 6)
    u = lookalike_cluster(rng, 0) if lookalike else []
    if lookalike:
        n_defs = len(u) + rng.choice([0, 1, 2])
    for i in range(len(u), n_defs):
        for _attempt in range(40):
            kind = "union" if rng.random() < 0.3 else "struct"
            fields = []
            if kind == "union":
                nv = force_union_variants or rng.choice([2, 2, 3, 3, 4, 5])
                for j in range(nv):
                    fields.append({"name": "d%dv%d" % (i, j), "type": gen_type(rng, i, 2, small, text_ok)})
            else:
                nf = rng.choice([0, 1, 1, 2, 2, 3, 3, 4, 5, max_fields])
                for j in range(nf):
                    if rng.random() < 0.15:
                        fields.append({"pad": rng.choice([1, 2, 3, 5, 7, 8, 16, 32, 64]) if rng.random() < 0.7 else rng.randrange(1, 65)})
                    else:
                        fields.append({"name": "d%df%d" % (i, j), "type": gen_type(rng, i, 2, small, text_ok)})
            d = {"name": "%s.T%d" % (ROOT, i), "ver": (1, 0), "kind": kind, "fields": fields, "sealed": True, "extent": None}
            cand = u + [d]
            lay = Layout(cand)
            inner = lay.inner_tree(d)
            mx = R.ref_max(inner)
            if small and mx > 8 * 3000:
                continue
            if rng.random() < 0.4:
                d["sealed"] = False
                d["extent"] = rng.choice([mx, mx + 8, mx * 2, mx + 8 * rng.randrange(0, 64)] + ([] if small else [mx + (1 << 40)]))
            meter = R.CostMeter(cost_budget)
            try:
                for dv in divisors:
                    meter.mod(inner, dv)
            except R.TooBig:
                continue
            if consts and rng.random() < 1 / 3:
                d["consts"] = gen_consts(rng, i, len(fields))
            u.append(d)
            break
        else:
            u.append({"name": "%s.T%d" % (ROOT, i), "ver": (1, 0), "kind": "struct",
                      "fields": [{"name": "d%df0" % i, "type": ("uint", 8, "sat")}], "sealed": True, "extent": None})
    return u


# ------------------------------------------------------------------------------------------------------------------
# rendering
# ------------------------------------------------------------------------------------------------------------------
def render_type(t, u, rng=None) -> str:
    k = t[0]
    if k == "bool":
        return "bool"
    if k == "byte":
        return "byte"
    if k == "utf8":
        return "utf8"
    if k == "void":
        return "void%d" % t[1]
    if k == "uint":
        if t[2] == "trunc":
            return "truncated uint%d" % t[1]
        return ("saturated uint%d" if (rng is not None and rng.random() < 0.5) else "uint%d") % t[1]
    if k == "int":
        return ("saturated int%d" if (rng is not None and rng.random() < 0.5) else "int%d") % t[1]
    if k == "float":
        if t[2] == "trunc":
            return "truncated float%d" % t[1]
        return ("saturated float%d" if (rng is not None and rng.random() < 0.5) else "float%d") % t[1]
    if k == "ref":
        d = u[t[1]]
        return "%s.%d.%d" % (d["name"], d["ver"][0], d["ver"][1])
    if k == "fixed":
        return "%s[%d]" % (render_type(t[1], u, rng), t[2])
    if k == "var":
        if rng is not None and rng.random() < 0.4:
            return "%s[<%d]" % (render_type(t[1], u, rng), t[2] + 1)
        return "%s[<=%d]" % (render_type(t[1], u, rng), t[2])
    raise ValueError(k)


def canonical_type(t, u) -> str:
    """What str(pydsdl type) must print."""
    k = t[0]
    if k == "uint":
        return "%s uint%d" % ("truncated" if t[2] == "trunc" else "saturated", t[1])
    if k == "int":
        return "saturated int%d" % t[1]
    if k == "float":
        return "%s float%d" % ("truncated" if t[2] == "trunc" else "saturated", t[1])
    if k == "fixed":
        return "%s[%d]" % (canonical_type(t[1], u), t[2])
    if k == "var":
        return "%s[<=%d]" % (canonical_type(t[1], u), t[2])
    return render_type(t, u)


def render_def(d, u, rng=None, extra_lines_after=None) -> str:
    """Plain rendering (one statement per line, final newline). extra_lines_after: {n_fields_so_far: [lines]}."""
    lines = []
    if d["kind"] == "union":
        lines.append("@union")
    extra = extra_lines_after or {}
    nf = 0

    def consts_here():
        for c in d.get("consts", []):
            if c["after"] == nf:
                lines.append("%s %s = %s" % (c["ctype"], c["name"], {True: "true", False: "false"}.get(c["value"], c["value"]) if c["ctype"] == "bool" else c["value"]))

    consts_here()
    for ln in extra.get(0, []):
        lines.append(ln)
    for f in d["fields"]:
        if "pad" in f:
            lines.append("void%d" % f["pad"])
        else:
            lines.append("%s %s" % (render_type(f["type"], u, rng), f["name"]))
        nf += 1
        consts_here()
        for ln in extra.get(nf, []):
            lines.append(ln)
    if d["sealed"]:
        lines.append("@sealed")
    else:
        lines.append("@extent %d" % d["extent"])
    return "\n".join(lines) + "\n"


def def_path(d) -> Path:
    comps = d["name"].split(".")
    fn = "%s.%d.%d.dsdl" % (comps[-1], d["ver"][0], d["ver"][1])
    if d.get("port") is not None:
        fn = "%d.%s" % (d["port"], fn)
    return Path(*comps[:-1]) / fn


def write_universe(u, base: Path, rng=None, extra=None) -> Path:
    """Writes all definitions under base/<root>/...; returns the root namespace directory."""
    for i, d in enumerate(u):
        p = base / def_path(d)
        p.parent.mkdir(parents=True, exist_ok=True)
        p.write_text(render_def(d, u, rng, (extra or {}).get(i)))
    return base / ROOT


def read_universe(pydsdl, u, base: Path, rng=None, extra=None, print_handler=None, extras=None):
    """Text route. Returns list of composites aligned with u; extras (dict) receives whatever else the directory held."""
    root = write_universe(u, base, rng, extra)
    out = pydsdl.read_namespace(root, [], print_output_handler=print_handler)
    by = {(t.full_name, t.version.major, t.version.minor): t for t in out}
    if len(by) != len(out):
        raise AssertionError("duplicate composites returned by read_namespace")
    if extras is not None:
        mine = {(d["name"], d["ver"][0], d["ver"][1]) for d in u}
        extras.update({k: v for k, v in by.items() if k not in mine})
    return [by[(d["name"], d["ver"][0], d["ver"][1])] for d in u]


# ------------------------------------------------------------------------------------------------------------------
# constructor route
# ------------------------------------------------------------------------------------------------------------------
def construct_type(pydsdl, t, built):
    k = t[0]
    CM = pydsdl.PrimitiveType.CastMode
    mode = lambda m: CM.TRUNCATED if m == "trunc" else CM.SATURATED  # noqa
    if k == "bool":
        return pydsdl.BooleanType()
    if k == "byte":
        return pydsdl.ByteType()
    if k == "utf8":
        return pydsdl.UTF8Type()
    if k == "void":
        return pydsdl.VoidType(t[1])
    if k == "uint":
        return pydsdl.UnsignedIntegerType(t[1], mode(t[2]))
    if k == "int":
        return pydsdl.SignedIntegerType(t[1], CM.SATURATED)
    if k == "float":
        return pydsdl.FloatType(t[1], mode(t[2]))
    if k == "fixed":
        return pydsdl.FixedLengthArrayType(construct_type(pydsdl, t[1], built), t[2])
    if k == "var":
        return pydsdl.VariableLengthArrayType(construct_type(pydsdl, t[1], built), t[2])
    if k == "ref":
        return built[t[1]]
    raise ValueError(k)


def construct_def(pydsdl, d, built, doc=lambda: "", name=None, path=None, parent_service=False):
    attrs = []
    tail = []  # pydsdl lists the fields (incl. padding) first and the constants after them, each in source order

    def consts_here(nf):
        for c in d.get("consts", []):
            if c["after"] == nf:
                sat = pydsdl.PrimitiveType.CastMode.SATURATED
                t = {"uint8": lambda: pydsdl.UnsignedIntegerType(8, sat), "int16": lambda: pydsdl.SignedIntegerType(16, sat), "bool": lambda: pydsdl.BooleanType()}[c["ctype"]]()
                v = pydsdl.Boolean(c["value"]) if c["ctype"] == "bool" else pydsdl.Rational(c["value"])
                tail.append(pydsdl.Constant(t, c["name"], v, doc()))

    consts_here(0)
    for nf, f in enumerate(d["fields"], 1):
        if "pad" in f:
            attrs.append(pydsdl.PaddingField(pydsdl.VoidType(f["pad"]), doc()))
        else:
            attrs.append(pydsdl.Field(construct_type(pydsdl, f["type"], built), f["name"], doc()))
        consts_here(nf)
    attrs += tail
    cls = pydsdl.UnionType if d["kind"] == "union" else pydsdl.StructureType
    inner = cls(
        name=name or d["name"], version=pydsdl.Version(*d["ver"]), attributes=attrs, deprecated=bool(d.get("deprecated")),
        fixed_port_id=None if parent_service else d.get("port"), source_file_path=path or def_path(d),
        has_parent_service=parent_service, doc=doc(),
    )
    return inner if d["sealed"] else pydsdl.DelimitedType(inner, d["extent"])


def construct_universe(pydsdl, u, doc_rng=None):
    """doc_rng: if given, attributes and composites get random doc strings (docs never take part in equality)."""
    built = []

    def doc():
        return "" if doc_rng is None or doc_rng.random() < 0.4 else "doc %d" % doc_rng.randrange(1000)

    for d in u:
        built.append(construct_def(pydsdl, d, built, doc))
    return built


# ------------------------------------------------------------------------------------------------------------------
# services: the request and the response section of `pvns.Svc.1.0` repeat the bodies of two definitions of the universe,
# so each section must have exactly the layout R-layout gives for that definition
# ------------------------------------------------------------------------------------------------------------------
SERVICE_NAME = ROOT + ".Svc"
SERVICE_PATH = Path(ROOT) / "Svc.1.0.dsdl"


def service_text(u, i, j, rng=None) -> str:
    return render_def(u[i], u, rng) + "---\n" + render_def(u[j], u, rng)


def construct_service(pydsdl, u, built, i, j, port=None):
    req = construct_def(pydsdl, u[i], built, name=SERVICE_NAME + ".Request", path=SERVICE_PATH, parent_service=True)
    rsp = construct_def(pydsdl, u[j], built, name=SERVICE_NAME + ".Response", path=SERVICE_PATH, parent_service=True)
    return pydsdl.ServiceType(request=req, response=rsp, fixed_port_id=port)


def with_service_sections(pydsdl, u, objs, seed):
    """
    Returns a copy of objs in which two entries are replaced by the request / response sections of a service built from the
    same descriptions: a section is a composite like any other and must behave exactly like the stand-alone definition.
    """
    import random

    r2 = random.Random(seed ^ 0x5EC)
    i, j = r2.randrange(len(u)), r2.randrange(len(u))
    svc = construct_service(pydsdl, u, objs, i, j)
    out = list(objs)
    out[j] = svc.response_type
    out[i] = svc.request_type
    return out


def universe_sig(u):
    return repr(u)


def nesting(t, u, seen=0) -> int:
    """Number of nested constructors (array / composite) in a type."""
    k = t[0]
    if k in ("fixed", "var"):
        return 1 + nesting(t[1], u)
    if k == "ref":
        d = u[t[1]]
        inner = max([0] + [nesting(f["type"], u) for f in d["fields"] if "type" in f])
        return 1 + (0 if d["sealed"] else 1) + inner
    return 0


def def_nesting(d, u) -> int:
    return 1 + (0 if d["sealed"] else 1) + max([0] + [nesting(f["type"], u) for f in d["fields"] if "type" in f])


def copies(objs, rng=None, which=None):
    """
    The same model objects after the ways a program hands them on: a pickle round trip of the whole list (references among
    the definitions are kept shared, as in a cache file), one object at a time, an older pickle protocol, copy.deepcopy and
    copy.copy. Yields (label, list of copies): every statement about a model object holds for its copies as well.
    """
    import copy
    import pickle

    forms = {
        "pickled": lambda: pickle.loads(pickle.dumps(list(objs))),
        "pickled-proto2": lambda: pickle.loads(pickle.dumps(list(objs), protocol=2)),
        "pickled-one-by-one": lambda: [pickle.loads(pickle.dumps(o)) for o in objs],
        "deep-copied": lambda: copy.deepcopy(list(objs)),
        "copied": lambda: [copy.copy(o) for o in objs],
    }
    names = list(forms) if which is None else list(which)
    if rng is not None and which is None:
        names = rng.sample(names, 2)
    for n in names:
        yield n, forms[n]()
