"""
G-expr: expression trees over the grammar's literal and operator vocabulary, rendered with minimal parentheses (by the
harness's own precedence table in pv/ref/expr.py) or with redundant parentheses, every literal in a random spelling.
"""
from __future__ import annotations

from fractions import Fraction

from pv.gen.defs import O, int_literal
from pv.ref import expr as RE

PRIMES = [2, 3, 5, 7, 11, 13, 17, 19, 23]

# constants available as identifiers in every generated definition: name -> (DSDL type, initializer text, tagged value)
ENV_DECLS = [
    ("K7", "uint8", "7", ("r", Fraction(7))),
    ("KM3", "int8", "-3", ("r", Fraction(-3))),
    ("KQ", "float32", "1/4", ("r", Fraction(1, 4))),
    ("KT", "bool", "true", ("b", True)),
    ("K100", "uint16", "100", ("r", Fraction(100))),
]
ENV = {n: v for n, _t, _i, v in ENV_DECLS}
# constants of a dependency, reached through the attribute operator on a versioned type reference
DEP_TEXT = "uint16 KD = 300\nfloat32 KF = 2.5\nbool KB = false\nint8 KN = -7\nuint8[<=3] payload\n@sealed\n"
ENV.update({"ens.Dep.1.0.KD": ("r", Fraction(300)), "ens.Dep.1.0.KF": ("r", Fraction(5, 2)), "ens.Dep.1.0.KB": ("b", False),
            "Dep.1.0.KN": ("r", Fraction(-7)), "ens.Dep.1.0._extent_": ("r", Fraction(32))})


# ------------------------------------------------------------------------------------------------------------------
# literals
# ------------------------------------------------------------------------------------------------------------------
def gen_int(rng):
    r = rng.random()
    if r < 0.5:
        return ("int", rng.choice(PRIMES + [0, 1, 4, 6, 8, 9, 10, 12]))
    if r < 0.8:
        return ("int", rng.randrange(0, 200))
    return ("int", rng.choice([255, 256, 1000, 65535, 1 << 20, (1 << 32) - 1, 1 << 40]))


def gen_real(rng):
    r = rng.random()
    if r < 0.5:
        return ("real", Fraction(rng.randrange(0, 2000), rng.choice([2, 4, 5, 8, 10, 100])))
    if r < 0.8:
        return ("real", Fraction(rng.randrange(1, 100)) * Fraction(10) ** rng.randrange(-4, 5))
    return ("real", Fraction(rng.randrange(0, 50)))


STR_ATOMS = ["a", "b", "Z", "0", " ", "é", "é", "€", "\n", "\t", "\\", "'", '"', "é", "\U0001f600", "#", "@", "e", "\u0301", "\u0301", "\u0327", "a\u0308", "\u1100", "\u1161"]  # lone combining marks / jamo: strings that compose across a concatenation boundary


def gen_str(rng):
    return ("str", "".join(rng.choice(STR_ATOMS) for _ in range(rng.choice([0, 1, 1, 2, 3]))))


def render_real(rng, fr: Fraction):
    """A real literal spelling (point or exponent notation, digit separators) that denotes fr exactly; None if fr is not
    a finite decimal."""
    x, digits = fr, 0
    while x.denominator != 1:
        x *= 10
        digits += 1
        if digits > 30:
            return None
    n = x.numerator
    s = str(n)
    style = rng.random()

    def sep(d):
        if len(d) > 2 and rng.random() < 0.3:
            i = rng.randrange(1, len(d))
            return d[:i] + "_" + d[i:]
        return d

    if style < 0.4:
        s = s.rjust(digits + 1, "0")
        ip, fp = (s[:-digits], s[-digits:]) if digits else (s, "")
        if digits == 0:
            return sep(ip) + "." + ("" if rng.random() < 0.5 else "0")
        if ip == "0" and rng.random() < 0.4:
            return "." + sep(fp)
        return sep(ip) + "." + sep(fp)
    # exponent notation: n * 10**(-digits), possibly shifted
    shift = rng.choice([0, 0, 1, 2])
    mant = s + "0" * shift
    e = -digits - shift
    es = rng.choice(["e", "E"]) + (("+" if rng.random() < 0.3 else "") if e >= 0 else "-") + str(abs(e))
    if rng.random() < 0.4:
        return sep(mant) + es
    if rng.random() < 0.5:
        return sep(mant) + "." + es
    # move the point inside the mantissa
    if len(mant) > 1:
        k = rng.randrange(1, len(mant))
        e2 = e + (len(mant) - k)
        es2 = rng.choice(["e", "E"]) + ("-" if e2 < 0 else "") + str(abs(e2))
        return mant[:k] + "." + mant[k:] + es2
    return mant + ".0" + es


def render_str(rng, s: str):
    q = rng.choice("'\"")
    out = []
    for ch in s:
        o = ord(ch)
        if ch == "\\":
            out.append("\\\\")
        elif ch == q:
            out.append("\\" + q)
        elif ch == "\n":
            out.append(rng.choice(["\\n", "\\N", "\\u000a"]))
        elif ch == "\t":
            out.append(rng.choice(["\\t", "\\T", "\\u0009"]))
        elif ch == "\r":
            out.append("\\r")
        elif ch in "'\"" and rng.random() < 0.5:
            out.append("\\" + ch)
        elif o > 0xFFFF:
            out.append(ch if rng.random() < 0.5 else "\\U%08x" % o)
        elif o > 126 or rng.random() < 0.1:
            out.append(ch if (o > 31 and rng.random() < 0.5) else rng.choice(["\\u%04x", "\\u%04X", "\\U%08x"]) % o)
        else:
            out.append(ch)
    return q + "".join(out) + q


# ------------------------------------------------------------------------------------------------------------------
# trees
# ------------------------------------------------------------------------------------------------------------------
def gen_scalar(rng, want):
    if want == "r":
        r = rng.random()
        if r < 0.6:
            return gen_int(rng)
        if r < 0.85:
            return gen_real(rng)
        return ("id", rng.choice(["K7", "KM3", "KQ", "K100", "ens.Dep.1.0.KD", "ens.Dep.1.0.KF", "Dep.1.0.KN", "ens.Dep.1.0._extent_"]))
    if want == "b":
        return ("bool", rng.random() < 0.5) if rng.random() < 0.85 else ("id", rng.choice(["KT", "ens.Dep.1.0.KB"]))
    if want == "s":
        return gen_str(rng)
    raise ValueError(want)


def gen_tree(rng, depth, want, budget):
    """want in r b s set-r set-s set-b any. budget: [remaining ** operators]."""
    if want == "any":
        want = rng.choice(["r", "r", "r", "b", "b", "s", "set-r", "set-r", "set-s"]) if rng.random() < 0.96 else rng.choice(["set-set-r", "set-set-s", "set-set-b"])
    if want.startswith("set-"):
        ek = want[4:]
        r = rng.random()
        if depth <= 0 or r < 0.45:
            n = rng.choice([1, 2, 2, 3, 4])
            return ("set", tuple(gen_tree(rng, max(0, depth - 2), ek, budget) for _ in range(n)))
        if r < 0.7:
            return ("bin", rng.choice(["|", "&", "^"]), gen_tree(rng, depth - 1, want, budget), gen_tree(rng, depth - 1, want, budget))
        if ek in ("r", "s") and r > 0.93:
            # the least / greatest element of a set of sets (ordered by inclusion)
            return ("attr", gen_tree(rng, depth - 1, "set-" + want, budget), rng.choice(["min", "max"]))
        if ek == "r":
            op = rng.choice(["+", "-", "*", "/", "%", "**"])
            if op == "**":
                if budget[0] <= 0:
                    op = "*"
                else:
                    budget[0] -= 1
                    if rng.random() < 0.5:
                        return ("bin", "**", gen_tree(rng, 0, want, budget), small_exponent(rng))
                    return ("bin", "**", ("int", rng.choice([2, 3, 5])), ("set", tuple(small_exponent(rng) for _ in range(rng.choice([1, 2])))))
            if rng.random() < 0.5:
                return ("bin", op, gen_tree(rng, depth - 1, want, budget), gen_tree(rng, depth - 1, "r", budget))
            return ("bin", op, gen_tree(rng, depth - 1, "r", budget), gen_tree(rng, depth - 1, want, budget))
        if ek == "s":
            if rng.random() < 0.5:
                return ("bin", "+", gen_tree(rng, depth - 1, want, budget), gen_tree(rng, 0, "s", budget))
            return ("bin", "+", gen_tree(rng, 0, "s", budget), gen_tree(rng, depth - 1, want, budget))
        return ("set", tuple(gen_tree(rng, 0, ek, budget) for _ in range(2)))
    if depth <= 0 or rng.random() < 0.15:
        return gen_scalar(rng, want)
    if want == "r":
        r = rng.random()
        if r < 0.12:
            return ("un", rng.choice(["-", "-", "+"]), gen_tree(rng, depth - 1, "r", budget))
        if r < 0.2:
            return ("attr", gen_tree(rng, depth - 1, "set-r", budget), rng.choice(["min", "max", "count"]))
        if r < 0.25:
            return ("attr", gen_tree(rng, depth - 1, rng.choice(["set-s", "set-b"]), budget), "count")
        if r < 0.37:
            return ("bin", rng.choice(["|", "^", "&"]), gen_tree(rng, depth - 1, "r", budget), gen_tree(rng, depth - 1, "r", budget))
        if r < 0.5 and budget[0] > 0:
            budget[0] -= 1
            base = gen_tree(rng, depth - 1, "r", budget)
            e = small_exponent(rng)
            if rng.random() < 0.3 and budget[0] > 0:
                budget[0] -= 1
                e = ("bin", "**", ("int", rng.choice([1, 2, 3])), ("int", rng.choice([0, 1, 2])))
            return ("bin", "**", base, e)
        op = rng.choice(["+", "-", "*", "/", "%", "+", "-", "*"])
        return ("bin", op, gen_tree(rng, depth - 1, "r", budget), gen_tree(rng, depth - 1, "r", budget))
    if want == "b":
        r = rng.random()
        if r < 0.15:
            return ("un", "!", gen_tree(rng, depth - 1, "b", budget))
        if r < 0.45:
            return ("bin", rng.choice(["||", "&&"]), gen_tree(rng, depth - 1, "b", budget), gen_tree(rng, depth - 1, "b", budget))
        if r < 0.75:
            return ("bin", rng.choice(["==", "!=", "<", "<=", ">", ">="]), gen_tree(rng, depth - 1, "r", budget), gen_tree(rng, depth - 1, "r", budget))
        if r < 0.85:
            k = rng.choice(["b", "s"])
            if k == "s" and rng.random() < 0.5:
                # one string built by concatenation, the other a literal of the whole in another normalisation form: characters may
                # compose across the boundary of a concatenation ('e' + U+0301), so the canonical form of a sum is not the sum of the forms
                import unicodedata

                parts = [gen_str(rng)[1] or rng.choice(["e", "a", "\u1100"]) for _ in range(rng.choice([2, 2, 3]))]
                if rng.random() < 0.7:
                    parts[1] = rng.choice(["\u0301", "\u0327\u0301", "\u0308x", "\u1161"]) + parts[1]
                    parts[0] = parts[0] + rng.choice(["e", "a", "\u1100", "c"])
                left = ("str", parts[0])
                for p_ in parts[1:]:
                    left = ("bin", "+", left, ("str", p_))
                whole = unicodedata.normalize(rng.choice(["NFC", "NFD", "NFC"]), "".join(parts))
                right = ("str", whole if rng.random() < 0.85 else whole + "x")
                if rng.random() < 0.3:
                    return ("bin", "==", ("attr", ("set", (left, right)), "count"), ("int", 1))
                if rng.random() < 0.5:
                    left, right = right, left
                return ("bin", rng.choice(["==", "!="]), left, right)
            return ("bin", rng.choice(["==", "!="]), gen_tree(rng, depth - 1, k, budget), gen_tree(rng, depth - 1, k, budget))
        k = rng.choice(["set-r", "set-r", "set-s"]) if rng.random() < 0.9 else "set-set-r"
        left = gen_tree(rng, depth - 1, k, budget)
        rel = rng.random()
        if rel < 0.55 and left[0] == "set" and left[1]:
            # related operands: equal (reordered, duplicated elements), proper subset or proper superset
            els = list(left[1])
            rng.shuffle(els)
            if rel < 0.25:
                right = ("set", tuple(els + els[:1]))
            elif rel < 0.4 and len(els) > 1:
                right = ("set", tuple(els[:-1]))
            else:
                right = ("set", tuple(els + [gen_tree(rng, 0, k[4:], budget)]))
            if k == "set-s" and right[0] == "set":
                # canonically equivalent spellings of the same strings (NFC <-> NFD) are the same elements
                import unicodedata

                right = ("set", tuple(("str", unicodedata.normalize(rng.choice(["NFC", "NFD"]), e[1])) if e[0] == "str" and rng.random() < 0.6 else e for e in right[1]))
            if rng.random() < 0.5:
                left, right = right, left
        else:
            right = gen_tree(rng, depth - 1, k, budget)
        return ("bin", rng.choice(["==", "!=", "<", "<=", ">", ">="]), left, right)
    if want == "s":
        return ("bin", "+", gen_tree(rng, depth - 1, "s", budget), gen_tree(rng, depth - 1, "s", budget))
    raise ValueError(want)


def small_exponent(rng):
    e = rng.choice([0, 1, 2, 2, 3, 4, 5, 6])
    if rng.random() < 0.25:
        return ("un", "-", ("int", e))
    return ("int", e)


def no_extremum(rng):
    """min / max of a set of sets none of which is included in (includes) all others: inclusion is only a partial order."""
    a, b = rng.sample(range(1, 30), 2)
    mk = (lambda x: ("int", x)) if rng.random() < 0.7 else (lambda x: ("str", "s%d" % x))
    els = [("set", (mk(a),)), ("set", (mk(b),))]
    which = rng.choice(["min", "max"])
    if rng.random() < 0.4:
        # an element that is comparable with all others, but at the wrong end
        els.append(("set", (mk(a), mk(b))) if which == "min" else ("set", (mk(a), mk(b), mk(31))))
        if which == "max":
            els = [("set", (mk(a), mk(31))), ("set", (mk(b), mk(31))), ("set", (mk(31),))]
    rng.shuffle(els)
    return ("attr", ("set", tuple(els)), which)


def unordered_extremum(rng):
    """min / max of a set of two or more distinct strings / both booleans: no ordering is defined for these operand types."""
    which = rng.choice(["min", "max"])
    if rng.random() < 0.5:
        els = [("bool", True), ("bool", False)] + ([("bool", rng.random() < 0.5)] if rng.random() < 0.3 else [])
    else:
        els = [("str", x) for x in rng.sample(["a", "b", "K", "zz", "", "0", "\u00e9", "a b"], rng.choice([2, 2, 3]))]
    rng.shuffle(els)
    if rng.random() < 0.3:
        return ("attr", ("paren", ("bin", "|", ("set", tuple(els[:1])), ("set", tuple(els[1:])))), which)
    return ("attr", ("set", tuple(els)), which)


def inject_error(rng, t):
    """Replaces one sub-tree so that the expression becomes undefined in a known way. Returns (tree, error class)."""
    kind = rng.choice(["type-mismatch", "div-zero", "mod-zero", "bitwise-nonint", "empty-set", "empty-intersection",
                       "heterogeneous-set", "heterogeneous-nested-set", "no-least-element", "unordered-extremum", "unknown-attribute", "unknown-identifier", "order-strings", "logic-nonbool",
                       "not-nonbool", "set-vs-scalar-compare", "neg-string", "attr-on-scalar", "zero-neg-power"])
    r = lambda w: gen_tree(rng, 1, w, [1])  # noqa
    bad = {
        "type-mismatch": lambda: ("bin", rng.choice(["+", "-", "*", "==", "<"]), r("r"), r(rng.choice(["b", "s"]))),
        "div-zero": lambda: ("bin", "/", r("r"), rng.choice([("int", 0), ("bin", "-", ("int", 3), ("int", 3)), ("real", Fraction(0))])),
        "mod-zero": lambda: ("bin", "%", r("r"), ("int", 0)),
        "bitwise-nonint": lambda: ("bin", rng.choice(["|", "^", "&"]), ("real", Fraction(1, 2)), ("int", 3)),
        "empty-set": lambda: ("set", ()),
        "empty-intersection": lambda: ("bin", "&", ("set", (("int", 1), ("int", 2))), ("set", (("int", 3),))),
        "heterogeneous-set": lambda: ("set", (r("r"), r(rng.choice(["b", "s"])))),
        "heterogeneous-nested-set": lambda: ("set", (r("set-r"), r(rng.choice(["set-s", "set-b", "set-set-r"])))),
        "no-least-element": lambda: no_extremum(rng),
        "unordered-extremum": lambda: unordered_extremum(rng),
        "unknown-attribute": lambda: ("attr", r("set-r"), rng.choice(["size", "length", "Min", "first"])),
        "unknown-identifier": lambda: ("id", rng.choice(["UNKNOWN", "k7", "_x", "offset"])),
        "order-strings": lambda: ("bin", rng.choice(["<", ">="]), r("s"), r("s")),
        "logic-nonbool": lambda: ("bin", rng.choice(["||", "&&"]), r("r"), r("b")),
        "not-nonbool": lambda: ("un", "!", r(rng.choice(["r", "s"]))),
        "set-vs-scalar-compare": lambda: ("bin", rng.choice(["==", "<", "!="]), r("set-r"), r("r")),
        "neg-string": lambda: ("un", "-", r("s")),
        "attr-on-scalar": lambda: ("attr", ("paren", r("r")), "min"),
        "zero-neg-power": lambda: ("bin", "**", ("int", 0), ("un", "-", ("int", rng.choice([1, 2])))),
    }[kind]()
    # splice: replace a random leaf position by the bad sub-tree, or use it as the whole expression
    if rng.random() < 0.4:
        return bad, kind
    return splice(rng, t, bad), kind


def splice(rng, t, bad):
    k = t[0]
    if k in ("int", "real", "str", "bool", "id"):
        return bad
    if k == "paren":
        return ("paren", splice(rng, t[1], bad))
    if k == "set":
        if not t[1]:
            return bad
        i = rng.randrange(len(t[1]))
        return ("set", tuple(splice(rng, c, bad) if j == i else c for j, c in enumerate(t[1])))
    if k == "un":
        return ("un", t[1], splice(rng, t[2], bad))
    if k == "attr":
        return ("attr", splice(rng, t[1], bad), t[2])
    if rng.random() < 0.5:
        return ("bin", t[1], splice(rng, t[2], bad), t[3])
    return ("bin", t[1], t[2], splice(rng, t[3], bad))


# ------------------------------------------------------------------------------------------------------------------
# rendering
# ------------------------------------------------------------------------------------------------------------------
def render(rng, t, redundant=0.0):
    """Token list. Parentheses are inserted exactly where the harness's precedence table requires them, plus with
    probability `redundant` around any sub-expression."""
    toks = _render(rng, t, redundant)
    return toks


def _wrap(toks):
    return ["(", O] + toks + [O, ")"]


def _child(rng, c, need, redundant):
    """Render child c for a position that requires precedence level >= need."""
    toks = _render(rng, c, redundant)
    lv = RE.level(c)
    if lv < need or (redundant and rng.random() < redundant):
        return _wrap(toks)
    return toks


def _render(rng, t, redundant):
    k = t[0]
    if k == "int":
        return [int_literal(rng, t[1])]
    if k == "real":
        s = render_real(rng, t[1])
        if s is None:
            return _wrap([int_literal(rng, t[1].numerator), O, "/", O, int_literal(rng, t[1].denominator)])
        return [s]
    if k == "str":
        return [render_str(rng, t[1])]
    if k == "bool":
        return ["true" if t[1] else "false"]
    if k == "id":
        return [t[1]]
    if k == "paren":
        return _wrap(_render(rng, t[1], redundant))
    if k == "set":
        out = ["{", O]
        for i, c in enumerate(t[1]):
            if i:
                out += [O, ",", O]
            out += _child(rng, c, RE.L_LOG, redundant)
        return out + [O, "}"]
    if k == "attr":
        return _child(rng, t[1], RE.L_ATTR, redundant) + [O, ".", O, t[2]]
    if k == "un":
        if t[1] == "!":
            return ["!", O] + _child(rng, t[2], RE.L_NOT, redundant)
        return [t[1], O] + _child(rng, t[2], RE.L_EXP, redundant)
    if k == "bin":
        op = t[1]
        lv = RE.BIN_LEVEL[op]
        if op == "**":
            return _child(rng, t[2], RE.L_ATTR, redundant) + [O, "**", O] + _child(rng, t[3], RE.L_UNARY, redundant)
        left = _child(rng, t[2], lv, redundant)
        right = _child(rng, t[3], lv + 1, redundant)
        return left + [O, op, O] + right
    raise ValueError(k)


def op_levels(t, acc=None):
    acc = set() if acc is None else acc
    k = t[0]
    if k == "bin":
        acc.add(RE.BIN_LEVEL[t[1]])
        op_levels(t[2], acc)
        op_levels(t[3], acc)
    elif k == "un":
        acc.add(RE.level(t))
        op_levels(t[2], acc)
    elif k == "attr":
        acc.add(RE.L_ATTR)
        op_levels(t[1], acc)
    elif k == "paren":
        op_levels(t[1], acc)
    elif k == "set":
        acc.add("set")
        for c in t[1]:
            op_levels(c, acc)
    return acc


def operators(t, acc=None):
    acc = [] if acc is None else acc
    k = t[0]
    if k == "bin":
        acc.append(t[1])
        operators(t[2], acc)
        operators(t[3], acc)
    elif k == "un":
        acc.append("u" + t[1])
        operators(t[2], acc)
    elif k == "attr":
        acc.append("." + t[2])
        operators(t[1], acc)
    elif k == "paren":
        operators(t[1], acc)
    elif k == "set":
        acc.append("{}")
        for c in t[1]:
            operators(c, acc)
    return acc
