"""C15 - a type's name, version and port-ID are exactly those encoded in its file path (R-path oracle, designation matrix)."""
from __future__ import annotations

import os
import random
import shutil
from pathlib import Path

from pv.core import CaseTimeout, import_pydsdl

TITLE = "identity from the file path"
RULE = (
    "layouts <workspace>/<0-3 directories>/<root>/<0-4 namespace directories>/[<port>.]<Short>.<major>.<minor>.dsdl|.uavcan "
    "with valid and malformed names; each file is read through read_namespace and through read_files under a matrix of "
    "designations: absolute target x {absolute root, cwd-relative root, bare root name}; root-parent-relative target x {no "
    "roots (inferred), bare name, absolute root, relative root} with the cwd at the root's parent; cwd-relative deep target "
    "x {bare name, relative root, absolute root} with the cwd at the workspace. Oracles: identity (full name, version, "
    "port-ID, source_file_path, source_file_path_to_root) equals the R-path parse of the path; all designations that "
    "succeed agree; designations documented to work must succeed; malformed names (27 classes incl. numbers that are not plain decimal) must be rejected with "
    "InvalidDefinitionError. Non-trivial: path depth >=1 or a malformed name; distinct by (layout, designation)."
)
ASSUMPTIONS = [
    "numerals that Python's int() happens to accept in version / port parts (1_0, ' 1', non-ASCII digits) are reported in the evidence, not judged",
    "mixed designations outside the documented forms (absolute target with a multi-component relative root; cwd-relative deep "
    "target with an absolute root) may fail; if they succeed they must agree with the others",
]
MIN_MONITORS = {"designation": 9000, "identity": 6000, "must-succeed": 4000, "malformed": 1200, "agreement": 1500}
THOROUGH_MIN_SCALE = 10

SHORTS = ["Tabby", "A", "Abc9", "Node_status", "X1", "camelCase", "_lead"]
NS = ["felines", "sub", "a", "deep_ns", "n1", "Mixed"]
ROOTS = ["animals", "vendor", "plants", "r1", "Acme"]
PREFIXES = [[], ["proj"], ["proj", "types"], ["a", "b", "c"], ["with space"], ["dot.ted"]]


def plan(tier):
    if tier == "quick":
        return {"shards": 16, "params": {"n": 2400, "time_cap_s": 300}}
    return {"shards": 16, "params": {"n": 40000, "time_cap_s": 2400}, "hard_timeout_s": 4000}


def gen_layout(rng):
    prefix = rng.choice(PREFIXES)
    root = rng.choice(ROOTS)
    nsp = [rng.choice(NS) for _ in range(rng.choice([0, 0, 1, 1, 2, 3, 4]))]
    short = rng.choice(SHORTS)
    ver = rng.choice([(1, 0), (0, 1), (255, 255), (2, 7), (0, 255), (13, 0)])
    port = rng.choice([None, None, 0, 8191, 1234])
    ext = rng.choice([".dsdl", ".dsdl", ".uavcan"])
    malformed = None
    if rng.random() < 0.3:
        malformed = rng.choice(["two-parts", "five-parts", "no-version", "alpha-major", "alpha-minor", "alpha-port", "neg-version", "float-version",
                                "empty-short", "version-0-0", "version-256", "port-too-big", "bad-short", "reserved-short", "bad-namespace", "hex-version",
                                "empty-port", "empty-port-sidecar", "empty-major", "empty-minor", "trailing-dot-field",
                                "short-trailing-space", "short-trailing-tab", "short-trailing-nbsp", "short-leading-space", "short-inner-space",
                                "short-hyphen", "short-trailing-newline",
                                "underscore-version", "plus-version", "space-version", "unicode-digit-version", "minus-zero-version",
                                "underscore-port", "plus-port", "space-port", "unicode-digit-port"])
    return {"prefix": prefix, "root": root, "ns": nsp, "short": short, "ver": ver, "port": port, "ext": ext, "malformed": malformed}


def file_name(lay):
    m = lay["malformed"]
    short, (ma, mi), port = lay["short"], lay["ver"], lay["port"]
    parts = ([str(port)] if port is not None else []) + [short, str(ma), str(mi)]
    if m == "two-parts":
        parts = [short, str(ma)]
    elif m == "five-parts":
        parts = ["1", "2", short, str(ma), str(mi)]
    elif m == "no-version":
        parts = [short]
    elif m == "alpha-major":
        parts[-2] = "x"
    elif m == "alpha-minor":
        parts[-1] = "one"
    elif m == "alpha-port":
        parts = ["port", short, str(ma), str(mi)]
    elif m == "neg-version":
        parts[-1] = "-1"
    elif m == "float-version":
        parts[-2] = "1e1"
    elif m == "hex-version":
        parts[-1] = "0x1"
    elif m == "underscore-version":
        # the numbers of a file name are plain decimal numbers: what int() of some language would also take is not one of them
        parts[-1 if mi >= 10 or ma < 10 else -2] = "1_0" if (mi < 10 and ma < 10) else "%s_%s" % (str(max(ma, mi))[0], str(max(ma, mi))[1:])
    elif m == "plus-version":
        parts[-1] = "+" + parts[-1]
    elif m == "space-version":
        parts[-2] = " " + parts[-2]
    elif m == "unicode-digit-version":
        parts[-1] = "".join(chr(0x0660 + int(c)) for c in parts[-1])   # ARABIC-INDIC DIGITs
    elif m == "minus-zero-version":
        parts[-2:] = ["1", "-0"]
    elif m == "underscore-port":
        parts = ["1_234", short, str(ma), str(mi)]
    elif m == "plus-port":
        parts = ["+1234", short, str(ma), str(mi)]
    elif m == "space-port":
        parts = ["1234 ", short, str(ma), str(mi)]
    elif m == "unicode-digit-port":
        parts = ["\uff11\uff12", short, str(ma), str(mi)]             # FULLWIDTH DIGITs
    elif m == "empty-short":
        parts = ([str(port)] if port is not None else []) + ["", str(ma), str(mi)]
    elif m == "empty-port":
        parts = ["", short, str(ma), str(mi)]  # hidden file: ".Short.1.0.dsdl"
    elif m == "empty-port-sidecar":
        parts = ["", "_" + short, str(ma), str(mi)]  # macOS sidecar: "._Short.1.0.dsdl"
    elif m == "empty-major":
        parts[-2] = ""
    elif m == "empty-minor":
        parts[-1] = ""
    elif m == "trailing-dot-field":
        parts = parts + [""]
    elif m == "version-0-0":
        parts[-2:] = ["0", "0"]
    elif m == "version-256":
        parts[-1] = "256"
    elif m == "port-too-big":
        parts = ["8192", short, str(ma), str(mi)]
    elif m == "bad-short":
        parts[-3] = "9lives"
    elif m == "reserved-short":
        parts[-3] = "uint8"
    elif m and m.startswith("short-"):
        # blanks and other characters outside [A-Za-z0-9_] around or inside the short name are part of the name
        parts[-3] = {"short-trailing-space": short + " ", "short-trailing-tab": short + "\t", "short-trailing-nbsp": short + "\u00a0",
                     "short-leading-space": " " + short, "short-inner-space": short[:1] + " " + short[1:] + "x", "short-hyphen": short + "-x",
                     "short-trailing-newline": short + "\n"}[m]
    return ".".join(parts) + lay["ext"]


def expected_identity(lay, ws):
    rootdir = ws.joinpath(*lay["prefix"], lay["root"])
    fpath = rootdir.joinpath(*lay["ns"], file_name(lay))
    return {"full_name": ".".join([lay["root"]] + lay["ns"] + [lay["short"]]), "version": tuple(lay["ver"]), "port": lay["port"],
            "path": str(fpath.resolve()), "root": str(rootdir.resolve())}


def identity(t):
    return {"full_name": t.full_name, "version": (t.version.major, t.version.minor), "port": t.fixed_port_id,
            "path": str(Path(t.source_file_path).resolve()), "root": str(Path(t.source_file_path_to_root).resolve())}


def run_case(ctx, pydsdl, lay, workdir):
    ws = (workdir / "c15ws").resolve()
    shutil.rmtree(ws, ignore_errors=True)
    rootdir = ws.joinpath(*lay["prefix"], lay["root"])
    nsdirs = list(lay["ns"])
    if lay["malformed"] == "bad-namespace" and nsdirs:
        nsdirs[0] = "9bad"
    elif lay["malformed"] == "bad-namespace":
        nsdirs = ["9bad"]
    fdir = rootdir.joinpath(*nsdirs)
    fdir.mkdir(parents=True, exist_ok=True)
    fpath = fdir / file_name(lay)
    fpath.write_text("@sealed\n")
    case = {"layout": lay}
    exp = expected_identity(dict(lay, ns=nsdirs), ws)
    old_cwd = os.getcwd()
    rel_to_root_parent = Path(lay["root"], *nsdirs, file_name(lay))
    rel_to_ws = Path(*lay["prefix"], lay["root"], *nsdirs, file_name(lay))
    rel_root_ws = Path(*lay["prefix"], lay["root"])
    designs = [
        # (id, cwd, files, roots, must succeed for a well-formed name)
        ("abs-target/abs-root", ws, [fpath], [rootdir], True),
        ("abs-target/name-root", ws, [fpath], [lay["root"]], True),
        ("abs-target/rel-root", ws, [fpath], [rel_root_ws], len(rel_root_ws.parts) == 1),
        ("abs-target-str/abs-root-str", ws, [str(fpath)], [str(rootdir) + "/"], True),
        ("rootparent-rel/no-roots", rootdir.parent, [rel_to_root_parent], [], True),
        ("rootparent-rel/name-root", rootdir.parent, [rel_to_root_parent], [lay["root"]], True),
        ("rootparent-rel/abs-root", rootdir.parent, [rel_to_root_parent], [rootdir], True),
        ("rootparent-rel/rel-root", rootdir.parent, [rel_to_root_parent], [Path(lay["root"])], True),
        ("rootparent-rel/abs-root/other-cwd", ws.parent, [rel_to_root_parent], [rootdir], True),
        # the root by a (multi-component) path relative to the working directory, the target relative to the root's parent
        ("rootparent-rel/ws-rel-root", ws, [rel_to_root_parent], [rel_root_ws], True),
        ("ws-rel/name-root", ws, [rel_to_ws], [lay["root"]], True),
        ("ws-rel/rel-root", ws, [rel_to_ws], [rel_root_ws], True),
        ("ws-rel/abs-root", ws, [rel_to_ws], [rootdir], len(lay["prefix"]) == 0),
        ("ws-rel/no-roots", ws, [rel_to_ws], [], len(lay["prefix"]) == 0),
    ]
    # the documentation's mixed form: one root by bare name, another root namespace by (multi-component) relative path
    other_dir = ws.joinpath(*lay["prefix"], "otherroot")
    (other_dir / "sub").mkdir(parents=True, exist_ok=True)
    (other_dir / "sub" / "Oth.1.0.dsdl").write_text("@sealed\n")
    rel_other_ws = Path(*lay["prefix"], "otherroot")
    designs += [
        ("ws-rel/[name-root,rel-other]", ws, [rel_to_ws], [lay["root"], rel_other_ws], True),
        ("ws-rel/[rel-other,name-root]", ws, [rel_to_ws], [rel_other_ws, lay["root"]], True),
        ("ws-rel/[rel-root,name-other]", ws, [rel_to_ws], [rel_root_ws, "otherroot"], True),
        ("ws-rel/[rel-root,rel-other]", ws, [rel_to_ws], [rel_root_ws, rel_other_ws], True),
        ("abs-target/[name-root,abs-other]", ws, [fpath], [lay["root"], other_dir], True),
        ("abs-target/[abs-other,abs-root]", ws, [fpath], [other_dir, rootdir], True),
    ]
    # one root namespace contributed to from two file trees (two root directories of the same name), the target given relative to
    # the parent of its root: it is found in the tree where the file actually is, whichever tree is listed first
    twin_root = ws / "twintree" / lay["root"]
    twin_root.mkdir(parents=True, exist_ok=True)
    (twin_root / "TwinTreeOnly.1.0.dsdl").write_text("@sealed\n")
    designs += [
        ("two-trees/rootparent-rel/[abs-twin,abs-root]", ws, [rel_to_root_parent], [twin_root, rootdir], True),
        ("two-trees/rootparent-rel/[abs-root,abs-twin]", ws, [rel_to_root_parent], [rootdir, twin_root], True),
        ("two-trees/abs-target/[abs-twin,abs-root]", ws, [fpath], [twin_root, rootdir], True),
    ]
    # a sibling root namespace directory whose name is a proper prefix of the root's name ('anim' next to 'animals'), listed first:
    # a directory contains a file by path components, not by the characters of the path string
    pname = lay["root"][:max(1, len(lay["root"]) - 2)]
    prefix_root = rootdir.parent / pname
    if pname != lay["root"] and not prefix_root.exists():
        prefix_root.mkdir(parents=True)
        (prefix_root / "PrefixOnly.1.0.dsdl").write_text("@sealed\n")
        designs += [
            ("prefix-sibling/abs-target/[abs-prefix,abs-root]", ws, [fpath], [prefix_root, rootdir], True),
            ("prefix-sibling/ws-rel/[rel-prefix,rel-root]", ws, [rel_to_ws], [Path(*lay["prefix"], pname), rel_root_ws], True),
            ("prefix-sibling/rootparent-rel/[abs-prefix,abs-root]", ws, [rel_to_root_parent], [prefix_root, rootdir], True),
        ]
    # designations off the documented forms that may fail, but only with an InvalidDefinitionError, and must give the identity
    # encoded by the path when they succeed: the target reached through '..' across a sibling root (a root that is only a
    # lexical prefix of the target is not its root), and roots spelled '.' / '../<root>' from inside the tree
    via_other = other_dir / ".." / lay["root"] / Path(*nsdirs) / file_name(lay) if nsdirs else other_dir / ".." / lay["root"] / file_name(lay)
    in_root_rel = Path(*nsdirs, file_name(lay))
    designs += [
        ("abs-dotdot-via-other/[abs-other,abs-root]", ws, [via_other], [other_dir, rootdir], False),
        ("abs-dotdot-via-other/[abs-root,abs-other]", ws, [via_other], [rootdir, other_dir], False),
        ("abs-dotdot-via-other/names", ws, [via_other], ["otherroot", lay["root"]], False),
        ("cwd-other/rel-dotdot/[dot,rel-root]", other_dir, [Path("..", lay["root"], *nsdirs, file_name(lay))], [".", Path("..", lay["root"])], False),
        ("cwd-other/rel-dotdot/[rel-root,dot]", other_dir, [Path("..", lay["root"], *nsdirs, file_name(lay))], [Path("..", lay["root"]), "."], False),
        ("cwd-in-root/dot-root", rootdir, [in_root_rel], ["."], False),
        ("cwd-in-root/dotdot-root", rootdir, [in_root_rel], [Path("..", lay["root"])], False),
        ("cwd-in-root/abs-root", rootdir, [in_root_rel], [rootdir], False),
    ]
    if nsdirs and not lay["malformed"] and nsdirs[-1] not in lay["prefix"] and nsdirs[-1] != lay["root"] and nsdirs[-1] not in ws.parts:
        # a namespace directory below the root that is itself named like another root in the list: the list order of the
        # bare names must not decide which directory becomes the root
        inner = nsdirs[-1]
        designs += [
            ("abs-target/names[root,inner-dir]", ws, [fpath], [lay["root"], inner], False),
            ("abs-target/names[inner-dir,root]", ws, [fpath], [inner, lay["root"]], False),
            ("ws-rel/names[inner-dir,root]", ws, [rel_to_ws], [inner, lay["root"]], False),
        ]
    results = {}
    try:
        for did, cwd, files, roots, must in designs:
            os.chdir(cwd)
            ctx.mon("designation")
            try:
                direct, _tr = pydsdl.read_files(files, roots, allow_unregulated_fixed_port_id=True)
                results[did] = ("ok", [identity(t) for t in direct])
            except pydsdl.InvalidDefinitionError as ex:
                results[did] = ("rejected", type(ex).__name__ + ": " + str(ex)[:160])
            except Exception as ex:  # noqa
                results[did] = ("foreign", "%s: %s" % (type(ex).__name__, str(ex)[:160]))
        os.chdir(ws)
        ctx.mon("designation")
        try:
            res = pydsdl.read_namespace(rootdir, [], allow_unregulated_fixed_port_id=True)
            results["read_namespace"] = ("ok", [identity(t) for t in res])
        except pydsdl.InvalidDefinitionError as ex:
            results["read_namespace"] = ("rejected", type(ex).__name__ + ": " + str(ex)[:160])
        except Exception as ex:  # noqa
            results["read_namespace"] = ("foreign", "%s: %s" % (type(ex).__name__, str(ex)[:160]))
    finally:
        os.chdir(old_cwd)
        shutil.rmtree(ws, ignore_errors=True)
    must_map = {d[0]: d[4] for d in designs}
    must_map["read_namespace"] = True
    for did, r in results.items():
        c2 = dict(case, designation=did, result=r)
        if r[0] == "foreign":
            ctx.violation("C15/foreign-exception", "%s: %s" % (did, r[1]), c2)
            continue
        if lay["malformed"]:
            ctx.mon("malformed")
            if r[0] == "ok" and (did != "ws-rel/no-roots" and did != "rootparent-rel/no-roots" or True):
                if r[1]:
                    ctx.violation("C15/malformed-accepted/" + lay["malformed"], "%s: malformed name %r accepted as %r" % (did, file_name(lay), r[1]), c2)
            continue
        if did == "ws-rel/no-roots" and lay["prefix"]:
            # without any root designation the root namespace is, by definition, the first directory of the relative
            # target: the identity is the one encoded by the path relative to *that* directory
            if r[0] == "ok":
                ctx.mon("identity")
                alt = {"full_name": ".".join(list(lay["prefix"]) + [lay["root"]] + nsdirs + [lay["short"]]), "version": exp["version"], "port": exp["port"],
                       "path": exp["path"], "root": str(ws.joinpath(lay["prefix"][0]).resolve())}
                if len(r[1]) != 1 or r[1][0] != alt:
                    ctx.violation("C15/identity/inferred-root", "%s: identity %r, expected %r" % (did, r[1], alt), c2)
            continue
        if r[0] == "ok":
            ctx.mon("identity")
            if len(r[1]) != 1:
                ctx.violation("C15/identity", "%s: %d types returned" % (did, len(r[1])), c2)
            elif r[1][0] != exp:
                bad = [k for k in exp if r[1][0][k] != exp[k]]
                ctx.violation("C15/identity/" + ",".join(bad), "%s: identity %r, expected from the path %r" % (did, r[1][0], exp), c2)
        if must_map[did]:
            ctx.mon("must-succeed")
            if r[0] != "ok":
                ctx.violation("C15/designation-fails/" + did, "%s must work for %s but: %s" % (did, rel_to_ws, r[1]), c2)
        elif r[0] != "ok":
            ctx.cls("may-fail:" + did)
    if not lay["malformed"]:
        oks = [(d, r[1]) for d, r in results.items() if r[0] == "ok" and len(r[1]) == 1 and not (d == "ws-rel/no-roots" and lay["prefix"])]
        for d, ident in oks[1:]:
            ctx.mon("agreement")
            if ident != oks[0][1]:
                ctx.violation("C15/designations-disagree", "%s gives %r but %s gives %r" % (oks[0][0], oks[0][1], d, ident), case)
    return results


def run_shard(ctx):
    pydsdl = import_pydsdl()
    for i in range(ctx.share(ctx.params["n"])):
        if ctx.out_of_time():
            break
        lay = gen_layout(ctx.rng)
        try:
            with ctx.watchdog(60):
                res = run_case(ctx, pydsdl, lay, ctx.tmp)
        except CaseTimeout:
            ctx.inconclusive_case("watchdog", {"layout": lay})
            continue
        nt = len(lay["ns"]) + len(lay["prefix"]) >= 1 or bool(lay["malformed"])
        for did in res:
            ctx.sigs.add("%r|%s" % (sorted(lay.items(), key=str), did)) if nt else None
        ctx.case(repr(sorted(lay.items(), key=str)), nt, classes=["malformed-" + str(lay["malformed"]), "prefix-depth-%d" % len(lay["prefix"]), "ns-depth-%d" % len(lay["ns"])],
                 sample={"layout": lay, "file": file_name(lay), "results": {k: v[0] for k, v in res.items()}} if i < 3 else None)
    # definition files that are symbolic links: the identity is the one encoded by the link's own path (experiment shared with C10)
    from pv.props.c10 import symlink_case

    for _ in range(ctx.share(ctx.params["n"]) // 8):
        symlink_case(ctx, pydsdl, ctx.rng.randrange(1 << 40), ctx.tmp, prefix="C15")


def replay(ctx, case):
    pydsdl = import_pydsdl()
    if "symlinks" in case:
        from pv.props.c10 import symlink_case

        symlink_case(ctx, pydsdl, case["symlinks"], ctx.tmp, prefix="C15")
        return
    lay = case["layout"]
    lay["ver"] = tuple(lay["ver"])
    for k, v in run_case(ctx, pydsdl, lay, ctx.tmp).items():
        print(k, v)
