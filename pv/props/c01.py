"""C01 - bit length set algebra is exact (reference-model monitor on the real BitLengthSet)."""
from __future__ import annotations

from pv.core import CaseTimeout, import_pydsdl
from pv.gen import bls as G
from pv.ref import bls as R

TITLE = "bit length set algebra"
RULE = (
    "random operator trees over {leaf,concat,union,repeat,repeat_range,pad} built through randomly chosen public-API "
    "spellings (+, radd, |, ror, concatenate, unite, copy-constructor); class S trees are fully expanded and compared "
    "as sets, class L trees (k up to 2**63) are compared by min/max and by residues computed with a square-and-multiply "
    "sumset reference. A case is non-trivial when its tree has >=2 operator kinds and >=1 multi-valued leaf; distinct "
    "by (tree, class)."
)
ASSUMPTIONS = [
    "R-bls (pv/ref/bls.py) is the trusted reference; it was cross-checked against brute-force set arithmetic",
    "trees whose cost predictor exceeds the budget for the unchanged implementation are resampled, not judged",
    "divisors beyond 1..72 are sampled, not enumerated",
]
MIN_MONITORS = {"mod": 200000, "minmax": 10000, "expand": 3000, "operand": 20000, "str": 10000, "aligned": 20000, "deep-chain": 1000}
THOROUGH_MIN_SCALE = 8

SMALL_DIVS = list(range(1, 73))
L_DIVS = list(range(1, 17)) + [24, 32, 48, 64]


def plan(tier):
    if tier == "quick":
        return {"shards": 16, "params": {"n_small": 16000, "n_large": 8000, "n_chains": 1600, "time_cap_s": 240}}
    return {"shards": 16, "params": {"n_small": 200000, "n_large": 100000, "n_chains": 20000, "time_cap_s": 1500}, "hard_timeout_s": 3000}


def _cmp(ctx, case, mech, what, got, exp):
    if got != exp:
        ctx.violation("C01/" + mech, "%s: got %s expected %s for %s" % (what, _short(got), _short(exp), R.render(case["tree"])), case)
        return False
    return True


def _short(x):
    s = repr(sorted(x) if isinstance(x, (set, frozenset)) else x)
    return s if len(s) < 300 else s[:300] + "..."


def totuple(t):
    """JSON round trip turns tuples into lists; normalise back."""
    k = t[0]
    if k == "leaf":
        return ("leaf", tuple(int(x) for x in t[1]))
    if k in ("concat", "union"):
        return (k, tuple(totuple(c) for c in t[1]))
    return (k, totuple(t[1]), int(t[2]))


def check_tree(ctx, pydsdl, tree, cls, divs, order_seed, spell_seed):
    """Runs one case. Returns False if the case had to be skipped (cost)."""
    import random

    case = {"tree": tree, "cls": cls, "divs": divs, "order_seed": order_seed, "spell_seed": spell_seed}
    B = pydsdl.BitLengthSet
    memo = {}
    exp_min, exp_max = R.ref_min(tree), R.ref_max(tree)
    expansion = R.ref_expand(tree) if cls == "S" else None

    copies = []
    for copy_no in range(2):
        bld = G.Builder(B, random.Random("%s:%d" % (spell_seed, copy_no)))
        obj, actual = bld.build(tree)
        copies.append((obj, actual, bld))
        for sp in bld.spellings:
            ctx.cls("spelling:" + sp)

    for copy_no, (obj, actual, bld) in enumerate(copies):
        amemo = {}
        order = random.Random("%s:%d" % (order_seed, copy_no))
        steps = ["str", "min", "max", "fixed", "mods", "aligned"] + (["iter", "len"] if cls == "S" else [])
        if copy_no == 0:
            pass  # analytic queries first, expansion last
        else:
            order.shuffle(steps)
            if cls == "S" and order.random() < 0.7:  # expansion (and pydsdl's validate_numerically) first
                steps.remove("iter")
                steps.insert(0, "iter")
        dlist = list(divs)
        if copy_no == 1:
            order.shuffle(dlist)
        for st in steps:
            if st == "str":
                ctx.mon("str")
                _cmp(ctx, case, "str", "str()", str(obj), R.render(actual))
                _cmp(ctx, case, "str", "repr()", repr(obj), "BitLengthSet(%s)" % R.render(actual))
            elif st == "min":
                ctx.mon("minmax")
                _cmp(ctx, case, "min", "min", obj.min, exp_min)
            elif st == "max":
                ctx.mon("minmax")
                _cmp(ctx, case, "max", "max", obj.max, exp_max)
            elif st == "fixed":
                ctx.mon("minmax")
                _cmp(ctx, case, "fixed_length", "fixed_length", obj.fixed_length, exp_min == exp_max)
            elif st == "mods":
                for d in dlist:
                    ctx.mon("mod")
                    got = set(obj % d)
                    exp = R.ref_mod(actual, d, amemo)
                    if not _cmp(ctx, case, "mod", "%% %d (copy %d)" % (d, copy_no), got, exp):
                        break
            elif st == "aligned":
                for d in dlist[:: max(1, len(dlist) // 12)]:
                    ctx.mon("aligned")
                    exp = R.ref_mod(actual, d, amemo) == {0}
                    _cmp(ctx, case, "aligned", "is_aligned_at(%d)" % d, obj.is_aligned_at(d), exp)
                ctx.mon("aligned")
                _cmp(ctx, case, "aligned", "is_aligned_at_byte()", obj.is_aligned_at_byte(), R.ref_mod(actual, 8, amemo) == {0})
            elif st == "iter":
                ctx.mon("expand")
                got = list(iter(obj))
                _cmp(ctx, case, "expand", "iter (copy %d)" % copy_no, set(got), expansion)
                if len(got) != len(set(got)):
                    ctx.violation("C01/expand", "iteration yields duplicates", case)
            elif st == "len":
                ctx.mon("expand")
                _cmp(ctx, case, "len", "len", len(obj), len(expansion))

    # operands must still denote their own sub-trees after everything above (composition + queries + expansion)
    for copy_no, (obj, actual, bld) in enumerate(copies):
        omemo = {}
        for (o, ot) in bld.operands:
            ctx.mon("operand")
            ok = o.min == R.ref_min(ot) and o.max == R.ref_max(ot) and str(o) == R.render(ot)
            for d in (divs[0], divs[len(divs) // 2], divs[-1], 8):
                ok = ok and set(o % d) == R.ref_mod(ot, d, omemo)
            if ok and cls == "S":
                ok = set(o) == R.ref_expand(ot)
            if not ok:
                # wrong from the start (already a C01/mod|min|max|expand matter) or changed by later composition/queries?
                fresh, _ = G.Builder(B, random.Random(0)).build(ot)
                same = (o.min, o.max, str(o)) == (fresh.min, fresh.max, str(fresh))
                for d in (divs[0], divs[len(divs) // 2], divs[-1], 8):
                    same = same and set(o % d) == set(fresh % d)
                if same and cls == "S":
                    same = set(o) == set(fresh)
                ctx.violation("C01/operand-wrong" if same else "C01/operand-changed",
                              "operand %s does not denote its own set after composing %s (%s)"
                              % (R.render(ot), R.render(actual), "a fresh copy answers alike" if same else
                                 "a freshly built copy answers differently: the operand was changed"), case)
                break
    return True


def _gen_case(ctx, rng, cls):
    """Returns (tree, divisors) within the implementation-cost budget, or None."""
    big = cls == "L"
    for _attempt in range(30):
        depth = rng.choice([1, 2, 2, 3, 3, 4])
        tree = G.gen_tree(rng, depth, big, fanout=3)
        if tree[0] == "leaf" and rng.random() < 0.8:
            continue
        if cls == "S":
            divs = SMALL_DIVS + [rng.randrange(73, 10 ** 6) for _ in range(4)]
        else:
            divs = L_DIVS + [rng.randrange(17, 10 ** 4) for _ in range(4)] + [rng.choice([128, 256, 1000, 1024, 4096])]
        divs = [d for d in divs if G.max_modulus(tree, d) <= (1 << 15)]
        if len(divs) < 8:
            ctx.cls("resampled-modulus")
            continue
        meter = R.CostMeter(250000 if cls == "S" else 200000)
        try:
            if cls == "S":
                if R.ref_max(tree) > 60000:
                    ctx.cls("resampled-range")
                    continue
                emem = {}
                R.ref_expand_mask(tree, _memo=emem)
                meter.expand(tree, emem)
            for d in divs:
                meter.mod(tree, d)
        except R.TooBig:
            ctx.cls("resampled-cost")
            continue
        return tree, divs
    return None


PRIMES = [2, 3, 5, 7, 11, 13, 17, 19, 23, 29, 31, 37, 41, 43, 47, 53, 59, 61, 67, 71, 73, 79, 83, 89, 97, 101, 103, 107, 109, 113]
# Logical steps allowed for a chain of n operators: measured on the unchanged tree <= 820 * n**2 (the per-level cost grows slowly
# with n because pydsdl's own validate_numerically re-queries 64 divisors at every level of an expansion); 6x-17x head room.
# A cost that doubles per level (2**n) exceeds this from n = 16 on.
def chain_budget(n: int) -> int:
    return 5000 * n * n + 200000


def chain_case(ctx, pydsdl, rng, mon, depth=None, seed=None):
    """
    A deep, narrow expression: `depth` operators applied one on top of the other (padding with pairwise coprime or random
    alignments, + leaf, | leaf, repeat 1..2) over a one-element set.  The sets stay tiny, so the oracle is the explicit
    expansion; the cost of answering min / max / % d / iteration must stay polynomial (about quadratic) in the depth (the logical-step meter of
    M-enum: PY_START + JUMP events in pydsdl code), whatever divisors the padding operators ask their operands for.
    """
    from pv.mon.symbolic import BudgetExceeded

    seed = rng.randrange(1 << 40) if seed is None else seed
    r = __import__("random").Random(seed)
    depth = depth or r.choice([8, 16, 24, 32, 48, 64])
    style = r.choice(["coprime-pads", "coprime-pads", "mixed", "pads-1-64"])
    primes = PRIMES[:]
    r.shuffle(primes)
    tree = ("leaf", (r.randrange(0, 40),))
    for lv in range(depth):
        op = "pad" if style == "coprime-pads" else r.choice(["pad", "pad", "plus", "plus", "union", "repeat"])
        if style == "pads-1-64":
            op = r.choice(["pad", "plus"])
        if op == "pad":
            a = primes[lv % len(primes)] if style != "pads-1-64" else r.randrange(1, 65)
            cand = ("pad", tree, a)
        elif op == "plus":
            cand = ("concat", (tree, ("leaf", (r.randrange(0, 9),))))
        elif op == "union":
            cand = ("union", (tree, ("leaf", (R.ref_min(tree) + r.randrange(0, 5),))))
        else:
            cand = ("repeat", tree, r.choice([1, 1, 2]))
        try:
            if R.ref_max(cand) > 200000 or len(R.ref_expand(cand)) > 48:
                cand = ("pad", tree, primes[lv % len(primes)])
        except R.TooBig:
            cand = ("pad", tree, primes[lv % len(primes)])
        tree = cand
    case = {"chain": seed, "depth": depth, "style": style}
    wide = r.random() < 0.25
    if wide:
        # a flat n-ary concatenation (one call with `depth` operands) instead of a chain: few sums, exponentially many tuples
        style = case["style"] = "wide-concatenation"
        step = r.choice([1, 1, 8, 3])
        leaves = [tuple(sorted({r.randrange(0, 3) * step, r.randrange(0, 3) * step})) for _ in range(depth)]
        tree = ("concat", tuple(("leaf", lv) for lv in leaves))
    expansion = R.ref_expand(tree)
    divs = [1, 2, 3, 7, 8, 16, 30, 32, 64, r.randrange(2, 1000)]
    if wide:
        B_ = pydsdl.BitLengthSet
        obj = B_.concatenate([B_(set(lv)) if r.random() < 0.7 else set(lv) for lv in leaves])
    else:
        obj, _actual = G.Builder(pydsdl.BitLengthSet, __import__("random").Random(seed)).build(tree)
    mon.reset()
    mon.step_budget = chain_budget(depth)
    mon.tuple_budget = 20 * chain_budget(depth)  # tuples enumerated inside itertools (C code, invisible to the step meter)
    mon.steps_on()
    try:
        ctx.mon("deep-chain")
        got = {"min": obj.min, "max": obj.max, "mods": {d: set(obj % d) for d in divs}, "aligned": obj.is_aligned_at_byte(), "iter": set(obj)}
    except BudgetExceeded:
        mon.steps_off()
        ctx.violation("C01/cost-exponential-in-depth", "no answer within %d logical steps / %d enumerated tuples for %d operators over a %d-element set (%s): %s" % (
            mon.step_budget, mon.tuple_budget, depth, len(expansion), style, R.render(tree)[:300]), case)
        return
    finally:
        mon.steps_off()
    ctx.notes["deep_chain_max_tuples_over_depth_squared"] = max(ctx.notes.get("deep_chain_max_tuples_over_depth_squared", 0), mon.tuples // (depth * depth))
    ctx.notes["deep_chain_max_steps_over_depth_squared"] = max(ctx.notes.get("deep_chain_max_steps_over_depth_squared", 0), mon.steps // (depth * depth))
    exp = {"min": min(expansion), "max": max(expansion), "mods": {d: {x % d for x in expansion} for d in divs},
           "aligned": all(x % 8 == 0 for x in expansion), "iter": set(expansion)}
    if got != exp:
        bad = [k for k in exp if got[k] != exp[k]]
        ctx.violation("C01/deep-chain", "%s differ for %s" % (bad, R.render(tree)[:400]), case)
    ctx.case(("chain", seed), True, classes=["deep-chain-" + style, "deep-chain-depth-%d" % depth])


def run_shard(ctx):
    pydsdl = import_pydsdl()
    from pv.core import repo_root
    from pv.mon.symbolic import SymbolicMonitor

    mon = SymbolicMonitor(pydsdl, repo_root() / "pydsdl").install()  # counting proxy for itertools inside _symbolic (tuple budget)
    for _ in range(ctx.share(ctx.params.get("n_chains", 0))):
        if ctx.out_of_time():
            break
        cseed = ctx.rng.randrange(1 << 40)
        try:
            with ctx.watchdog(120):
                chain_case(ctx, pydsdl, ctx.rng, mon, seed=cseed)
        except CaseTimeout:
            ctx.inconclusive_case("watchdog (deep chain)")
        except AssertionError as ex:
            mon.steps_off()
            ctx.violation("C01/internal-assert", "pydsdl's own self-check failed on a deep chain: %r" % (ex,), {"chain": cseed, "depth": None})
        except Exception as ex:  # noqa
            mon.steps_off()
            ctx.violation("C01/exception", "%r on a deep chain" % (ex,), {"chain": cseed, "depth": None})
    mon.uninstall()
    n_small = ctx.share(ctx.params["n_small"])
    n_large = ctx.share(ctx.params["n_large"])
    rng = ctx.rng
    for cls, n in (("S", n_small), ("L", n_large)):
        done = 0
        while done < n and not ctx.out_of_time():
            g = _gen_case(ctx, rng, cls)
            if g is None:
                continue
            tree, divs = g
            done += 1
            kinds = G.op_kinds(tree)
            nontrivial = len(kinds - {"leaf"}) >= 2 and G.has_multivalued_leaf(tree)
            order_seed, spell_seed = rng.randrange(1 << 30), rng.randrange(1 << 30)
            try:
                with ctx.watchdog(60):
                    check_tree(ctx, pydsdl, tree, cls, divs, order_seed, spell_seed)
            except CaseTimeout:
                ctx.inconclusive_case("watchdog", {"tree": tree, "cls": cls})
            except AssertionError as ex:
                ctx.violation("C01/internal-assert", "pydsdl's own self-check failed: %r on %s" % (ex, R.render(tree)),
                              {"tree": tree, "cls": cls, "divs": divs, "order_seed": order_seed, "spell_seed": spell_seed})
            except Exception as ex:  # noqa
                ctx.violation("C01/exception", "%r on %s" % (ex, R.render(tree)),
                              {"tree": tree, "cls": cls, "divs": divs, "order_seed": order_seed, "spell_seed": spell_seed})
            ctx.case((cls, tree), nontrivial, classes=["class-" + cls, "depth-%d" % G.depth(tree)] +
                     ["op-" + k for k in kinds],
                     sample={"class": cls, "tree": R.render(tree), "divisors": divs[:6] + ["..."] + divs[-3:]} if done <= 2 else None)


def replay(ctx, case):
    pydsdl = import_pydsdl()
    if "chain" in case:
        from pv.core import repo_root
        from pv.mon.symbolic import SymbolicMonitor

        m = SymbolicMonitor(pydsdl, repo_root() / "pydsdl").install()
        try:
            chain_case(ctx, pydsdl, ctx.rng, m, case["depth"], case["chain"])
        finally:
            m.uninstall()
        return
    tree = totuple(case["tree"])
    try:
        check_tree(ctx, pydsdl, tree, case["cls"], case["divs"], case["order_seed"], case["spell_seed"])
    except AssertionError as ex:
        ctx.violation("C01/internal-assert", "pydsdl's own self-check failed: %r" % ex, case)
    except Exception as ex:  # noqa
        ctx.violation("C01/exception", repr(ex), case)
