"""C02 - every type's layout equals the Specification (R-layout reference monitor on both build routes)."""
from __future__ import annotations

import random
import shutil

from pv.core import CaseTimeout, import_pydsdl
from pv.gen import types as GT
from pv.mon import blscmp
from pv.ref import bls as R
from pv.ref.layout import Layout, length_prefix_width

TITLE = "type layout"
RULE = (
    "random universes of 1-5 composite definitions (structures/unions, sealed/delimited, fields of every primitive "
    "width, arrays with boundary capacities 2**8/2**16/2**32 +-1 and up to 2**63, nested references) built through "
    "DSDL text + read_namespace and through the public constructors; every type object reachable in the model is "
    "compared with R-layout (min/max, residues for affordable divisors, full expansion when <=4096 elements, alignment, "
    "extent, prefix/tag/header widths); the same on pickled / deep-copied / copied forms of the objects. Non-trivial: definition nests >=2 constructors; distinct by universe description."
)
ASSUMPTIONS = [
    "R-layout (pv/ref/layout.py) restates the Specification's layout rules quoted in the property",
    "2**32-variant unions cannot be materialised; the 32->64 bit boundary is covered for array prefixes only",
]
MIN_MONITORS = {"bls-minmax": 25000, "bls-mod": 200000, "bls-expand": 15000, "align": 20000, "prefix": 2000, "tag": 1200,
                "header": 1500, "extent": 4000, "route-agree": 600, "str": 15000, "service": 600, "copies": 2000}
THOROUGH_MIN_SCALE = 8


def plan(tier):
    if tier == "quick":
        return {"shards": 16, "params": {"n": 2400, "big_unions": [255, 256, 257], "time_cap_s": 240}}
    return {"shards": 16, "params": {"n": 40000, "big_unions": [255, 256, 257, 65535, 65536, 65537], "time_cap_s": 1500},
            "hard_timeout_s": 3000}


def check_type(ctx, lay, u, tobj, tdesc, case, where, pydsdl):
    """Compare one type object (and, recursively, its element types) with the reference."""
    k = tdesc[0]
    exp_tree = lay.tree(tdesc)
    ok = blscmp.compare(ctx, tobj.bit_length_set, exp_tree, "C02/bls", where, case)
    ctx.mon("align")
    ea = lay.align(tdesc)
    if tobj.alignment_requirement != ea:
        ctx.violation("C02/alignment", "%s: alignment %r expected %r" % (where, tobj.alignment_requirement, ea), case)
    if not tobj.bit_length_set.is_aligned_at(tobj.alignment_requirement):
        ctx.violation("C02/alignment", "%s: lengths are not multiples of the alignment" % where, case)
    ctx.mon("str")
    if str(tobj) != GT.canonical_type(tdesc, u):
        ctx.violation("C02/str", "%s: str() = %r expected %r" % (where, str(tobj), GT.canonical_type(tdesc, u)), case)
    if k == "var":
        ctx.mon("prefix")
        ew = length_prefix_width(tdesc[2])
        if tobj.length_field_type.bit_length != ew or not isinstance(tobj.length_field_type, pydsdl.UnsignedIntegerType):
            ctx.violation("C02/prefix", "%s: length prefix %r bits, expected %d for capacity %d" % (
                where, tobj.length_field_type.bit_length, ew, tdesc[2]), case)
        if tobj.capacity != tdesc[2]:
            ctx.violation("C02/capacity", "%s: capacity %r expected %r" % (where, tobj.capacity, tdesc[2]), case)
    if k in ("fixed", "var"):
        if tobj.capacity != tdesc[2]:
            ctx.violation("C02/capacity", "%s: capacity %r expected %r" % (where, tobj.capacity, tdesc[2]), case)
        if tdesc[1][0] != "ref":  # referenced composites are checked as definitions of their own
            check_type(ctx, lay, u, tobj.element_type, tdesc[1], case, where + "[]", pydsdl)
    return ok


def check_universe(ctx, pydsdl, u, objs, case, route, indices=None):
    lay = Layout(u)
    for idx, obj in zip(indices if indices is not None else range(len(u)), objs):
        d = u[idx]
        info = lay.definition(idx)
        where = "%s %s" % (route, d["name"])
        blscmp.compare(ctx, obj.bit_length_set, info["tree"], "C02/bls", where, case)
        blscmp.blsrepr(ctx, obj.bit_length_set, "C02/blsrepr", where, case)
        ctx.mon("extent")
        if obj.extent != info["extent"]:
            ctx.violation("C02/extent", "%s: extent %r expected %r" % (where, obj.extent, info["extent"]), case)
        ctx.mon("align")
        if obj.alignment_requirement != 8:
            ctx.violation("C02/alignment", "%s: composite alignment %r" % (where, obj.alignment_requirement), case)
        if not obj.bit_length_set.is_aligned_at_byte() or not obj.bit_length_set.is_aligned_at(obj.alignment_requirement):
            ctx.violation("C02/alignment", "%s: composite lengths are not byte multiples" % where, case)
        if obj.extent % 8 != 0:
            ctx.violation("C02/extent", "%s: extent %r is not a byte multiple" % (where, obj.extent), case)
        inner = obj.inner_type
        if d["sealed"]:
            if isinstance(obj, pydsdl.DelimitedType) or inner is not obj:
                ctx.violation("C02/kind", "%s: sealed definition is modelled as delimited" % where, case)
            if obj.extent != obj.bit_length_set.max:
                ctx.violation("C02/extent", "%s: sealed extent != longest representation" % where, case)
        else:
            ctx.mon("header")
            if not isinstance(obj, pydsdl.DelimitedType):
                ctx.violation("C02/kind", "%s: delimited definition is modelled as %s" % (where, type(obj).__name__), case)
                continue
            if obj.delimiter_header_type.bit_length != 32 or not isinstance(obj.delimiter_header_type, pydsdl.UnsignedIntegerType):
                ctx.violation("C02/header", "%s: delimiter header %r bits" % (where, obj.delimiter_header_type.bit_length), case)
            blscmp.compare(ctx, inner.bit_length_set, info["inner_tree"], "C02/bls-inner", where + " (inner)", case)
            if inner.extent != info["inner_max"]:
                ctx.violation("C02/extent", "%s: inner extent %r expected %r" % (where, inner.extent, info["inner_max"]), case)
        want_cls = pydsdl.UnionType if d["kind"] == "union" else pydsdl.StructureType
        if type(inner) is not want_cls:
            ctx.violation("C02/kind", "%s: %s expected %s" % (where, type(inner).__name__, want_cls.__name__), case)
            continue
        if d["kind"] == "union":
            ctx.mon("tag")
            if inner.tag_field_type.bit_length != info["tag"] or not isinstance(inner.tag_field_type, pydsdl.UnsignedIntegerType):
                ctx.violation("C02/tag", "%s: tag %r bits expected %d for %d variants" % (
                    where, inner.tag_field_type.bit_length, info["tag"], len(d["fields"])), case)
            if inner.number_of_variants != len(d["fields"]):
                ctx.violation("C02/fields", "%s: %d variants expected %d" % (where, inner.number_of_variants, len(d["fields"])), case)
        fobjs = obj.fields
        if len(fobjs) != len(d["fields"]):
            ctx.violation("C02/fields", "%s: %d fields expected %d" % (where, len(fobjs), len(d["fields"])), case)
            continue
        limit = 12 if len(fobjs) > 40 else len(fobjs)
        for j in (range(len(fobjs)) if limit == len(fobjs) else sorted(random.Random(idx).sample(range(len(fobjs)), limit))):
            f, fo = d["fields"][j], fobjs[j]
            td = ("void", f["pad"]) if "pad" in f else f["type"]
            if td[0] == "ref":
                ctx.mon("str")
                if str(fo.data_type) != GT.canonical_type(td, u):
                    ctx.violation("C02/str", "%s field %d: %r" % (where, j, str(fo.data_type)), case)
                if fo.data_type.bit_length_set.max != R.ref_max(lay.tree(td)):
                    ctx.violation("C02/bls/minmax", "%s field %d: nested composite max differs" % (where, j), case)
                continue
            check_type(ctx, lay, u, fo.data_type, td, case, "%s.%s" % (where, f.get("name", "void")), pydsdl)


def check_copies(ctx, pydsdl, u, objs, case, route, rng):
    """The layout statements hold for the model objects however they reached the caller: pickled / copied ones included."""
    for label, cs in GT.copies(objs, rng):
        ctx.mon("copies")
        ctx.cls("copy-" + label)
        check_universe(ctx, pydsdl, u, cs, case, "%s/%s" % (route, label))


def check_service(ctx, pydsdl, u, sobj, svc, case, route):
    """Each section of a service is a composite of its own with the layout of the definition whose body it repeats."""
    ctx.mon("service")
    where = "%s %s" % (route, GT.SERVICE_NAME)
    if type(sobj) is not pydsdl.ServiceType:
        ctx.violation("C02/kind", "%s: %s expected ServiceType" % (where, type(sobj).__name__), case)
        return
    try:
        sobj.bit_length_set
        ctx.violation("C02/kind", "%s: a service type reports a bit length set of its own" % where, case)
    except TypeError:
        pass
    secs = [(sobj.request_type, svc[0], "Request"), (sobj.response_type, svc[1], "Response")]
    if [f.name for f in sobj.fields] != ["request", "response"] or sobj.fields[0].data_type is not secs[0][0] or sobj.fields[1].data_type is not secs[1][0]:
        ctx.violation("C02/fields", "%s: pseudo-fields %r" % (where, [str(f) for f in sobj.fields]), case)
    for obj, idx, nm in secs:
        if obj.full_name != GT.SERVICE_NAME + "." + nm or not obj.has_parent_service or obj.inner_type.has_parent_service is not True:
            ctx.violation("C02/kind", "%s: section %s is named %r (parent service: %r)" % (where, nm, obj.full_name, obj.has_parent_service), case)
        check_universe(ctx, pydsdl, u, [obj], case, "%s.%s" % (route, nm), indices=[idx])


def route_signature(objs):
    out = []
    for o in objs:
        bls = o.bit_length_set
        out.append((type(o).__name__, str(o), [str(a) for a in o.attributes], o.extent, bls.min, bls.max,
                    sorted(bls % 8), o.alignment_requirement))
    return out


def run_case(ctx, pydsdl, u, text_ok, seed, workdir):
    case = {"universe": u, "text_ok": text_ok, "seed": seed}
    routes = {}
    try:
        routes["ctor"] = GT.construct_universe(pydsdl, u)
    except pydsdl.InvalidDefinitionError as ex:
        ctx.violation("C02/rejected", "constructors rejected a valid universe: %r" % ex, case)
        return
    check_universe(ctx, pydsdl, u, routes["ctor"], case, "ctor")
    copy_rng = random.Random(seed ^ 0xC0B1)
    if seed % 2 == 0:
        check_copies(ctx, pydsdl, u, routes["ctor"], case, "ctor", copy_rng)
    svc = None
    if seed % 3 == 0:
        # a service whose request / response sections repeat the bodies of two definitions of the universe
        r2 = random.Random(seed ^ 0x5EC)
        svc = (r2.randrange(len(u)), r2.randrange(len(u)))
        case["service"] = svc
        try:
            check_service(ctx, pydsdl, u, GT.construct_service(pydsdl, u, routes["ctor"], *svc), svc, case, "ctor")
        except pydsdl.InvalidDefinitionError as ex:
            ctx.violation("C02/rejected", "constructors rejected a valid service: %r" % ex, case)
    if text_ok:
        d = workdir / "t"
        try:
            if svc:
                (d / GT.SERVICE_PATH).parent.mkdir(parents=True, exist_ok=True)
                (d / GT.SERVICE_PATH).write_text(GT.service_text(u, svc[0], svc[1], random.Random(seed + 1)))
            routes["text"] = GT.read_universe(pydsdl, u, d, random.Random(seed), extras=routes.setdefault("extras", {}))
        except pydsdl.InvalidDefinitionError as ex:
            ctx.violation("C02/rejected", "read_namespace rejected a valid universe: %r" % ex, case)
            return
        finally:
            shutil.rmtree(d, ignore_errors=True)
        check_universe(ctx, pydsdl, u, routes["text"], case, "text")
        if seed % 2 == 1:
            check_copies(ctx, pydsdl, u, routes["text"], case, "text", copy_rng)
        if svc:
            sobj = routes["extras"].get((GT.SERVICE_NAME, 1, 0))
            if sobj is None:
                ctx.violation("C02/fields", "read_namespace did not return the service definition", case)
            else:
                check_service(ctx, pydsdl, u, sobj, svc, case, "text")
        ctx.mon("route-agree")
        a, b = route_signature(routes["ctor"]), route_signature(routes["text"])
        if a != b:
            ctx.violation("C02/routes-differ", "constructor and text routes disagree: %r vs %r" % (a, b), case)
        for x, y in zip(routes["ctor"], routes["text"]):
            if not (x == y and hash(x) == hash(y)):
                ctx.violation("C02/routes-differ", "objects from the two routes are not equal/hash-equal: %s" % x, case)


def special_union_universe(rng, nv):
    fields = [{"name": "v%d" % j, "type": rng.choice([("uint", 8, "sat"), ("bool",), ("uint", 3, "trunc"), ("int", 16),
                                                     ("var", ("uint", 8, "sat"), 2)])} for j in range(nv)]
    d = {"name": "%s.U" % GT.ROOT, "ver": (1, 0), "kind": "union", "fields": fields, "sealed": True, "extent": None}
    if rng.random() < 0.4:
        d["sealed"], d["extent"] = False, 64 * rng.randrange(1, 9)
    return [d]


def run_shard(ctx):
    pydsdl = import_pydsdl()
    rng = ctx.rng
    n = ctx.share(ctx.params["n"])
    specials = [nv for i, nv in enumerate(ctx.params["big_unions"]) if i % ctx.nshards == ctx.shard % max(1, min(ctx.nshards, len(ctx.params["big_unions"])))]
    done = 0
    while done < n + len(specials) and not ctx.out_of_time():
        if done >= n:
            nv = specials[done - n]
            u = special_union_universe(rng, nv)
            text_ok = nv <= 300
            ctx.cls("union-variants-%d" % nv)
        else:
            text_ok = rng.random() < 0.6
            u = GT.gen_universe(rng, small=False, text_ok=text_ok, consts=True)
        seed = rng.randrange(1 << 30)
        done += 1
        lay = Layout(u)
        classes = ["route-text+ctor" if text_ok else "route-ctor-only"]
        for d in u:
            classes.append("%s-%s" % (d["kind"], "sealed" if d["sealed"] else "delimited"))
            for f in d["fields"]:
                if "type" in f and f["type"][0] == "var":
                    classes.append("prefix-%d" % lay.prefix_width(f["type"]))
        nontrivial = max(GT.def_nesting(d, u) for d in u) >= 2
        try:
            with ctx.watchdog(120):
                run_case(ctx, pydsdl, u, text_ok, seed, ctx.tmp)
        except CaseTimeout:
            ctx.inconclusive_case("watchdog", {"universe": u})
        except AssertionError as ex:
            ctx.violation("C02/internal-assert", "assertion inside pydsdl: %r" % (ex,), {"universe": u, "text_ok": text_ok, "seed": seed})
        except Exception as ex:  # noqa
            ctx.violation("C02/exception", "%r" % (ex,), {"universe": u, "text_ok": text_ok, "seed": seed})
        ctx.case(GT.universe_sig(u), nontrivial, classes=classes,
                 sample={"definitions": [GT.render_def(d, u) for d in u]} if done <= 2 else None)


def _tup(x):
    return tuple(_tup(i) for i in x) if isinstance(x, list) else x


def fix_universe(u):
    for d in u:
        d["ver"] = tuple(d["ver"])
        for f in d["fields"]:
            if "type" in f:
                f["type"] = _tup(f["type"])
    return u


def replay(ctx, case):
    pydsdl = import_pydsdl()
    u = fix_universe(case["universe"])
    run_case(ctx, pydsdl, u, case["text_ok"], case["seed"], ctx.tmp)
