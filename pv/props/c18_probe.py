"""
Sub-process probe of C18: model objects pickled by ANOTHER interpreter process (another string-hash seed) must behave as
values here - equal to an independently built twin, with the same hash, usable as set members / dict keys, with the same
string form, attributes and layout answers as in the process that pickled them.
usage: python -m pv.props.c18_probe <spec.json> <out.json>
"""
from __future__ import annotations

import base64
import json
import pickle
import sys
from fractions import Fraction


def norm(x):
    return json.loads(json.dumps(x, default=str))


def build_value(pydsdl, spec):
    k = spec[0]
    if k == "rat":
        return pydsdl.Rational(Fraction(spec[1], spec[2]))
    if k == "bool":
        return pydsdl.Boolean(bool(spec[1]))
    if k == "str":
        return pydsdl.String(spec[1])
    if k == "set":
        return pydsdl.Set([build_value(pydsdl, e) for e in spec[1]])
    raise ValueError(k)


def value_contract(loaded, twin, what, bad, compare_str=True):
    try:
        if not (loaded == twin and twin == loaded):
            bad("unequal", "%s: object pickled in another process != independently built twin (%s / %s)" % (what, loaded, twin))
            return
        if hash(loaded) != hash(twin):
            bad("hash", "%s: equal to its twin but hash differs (%s)" % (what, loaded))
        if loaded not in {twin} or {twin: 1}.get(loaded) != 1:
            bad("hash", "%s: not found in a set / dict holding its equal twin (%s)" % (what, loaded))
        if compare_str and str(loaded) != str(twin):
            bad("content", "%s: str differs from the twin's: %s / %s" % (what, loaded, twin))
    except Exception as ex:  # noqa
        bad("exception", "%s: %r" % (what, ex))


def main():
    spec = json.load(open(sys.argv[1]))
    sys.path.insert(0, spec["repo"])
    from pv.core import import_pydsdl

    pydsdl = import_pydsdl()
    from pv.gen import types as GT
    from pv.gen import bls as GB
    from pv.props.c02 import fix_universe
    from pv.props.c01 import totuple
    from pv.props.c18 import fingerprint
    import random

    out = {"violations": [], "checked": 0}
    for n, item in enumerate(spec["items"]):
        def bad(mech, detail, n=n):
            out["violations"].append({"mech": mech, "detail": detail[:1500], "item": n})

        try:
            loaded = pickle.loads(base64.b64decode(item["pickle"]))
        except Exception as ex:  # noqa
            bad("pickle-fails", "cannot unpickle in another process: %r" % (ex,))
            continue
        if item["kind"] == "universe":
            u = fix_universe(item["u"])
            twins = GT.construct_universe(pydsdl, u)
            for route in sorted(loaded):
                for i, (lo, tw) in enumerate(zip(loaded[route], twins)):
                    out["checked"] += 1
                    what = "%s (%s route)" % (tw, route)
                    value_contract(lo, tw, what, bad)
                    try:
                        fp = norm(fingerprint(lo, pydsdl))
                        if fp != item["fp"][route][i]:
                            bad("content", "%s: str / attributes / docs / layout answers differ from those in the pickling process" % what)
                    except Exception as ex:  # noqa
                        bad("exception", "%s: %r" % (what, ex))
                    for la, ta in zip(lo.attributes, tw.attributes):
                        out["checked"] += 1
                        value_contract(la, ta, "attribute %s of %s" % (ta, what), bad)
                        value_contract(la.data_type, ta.data_type, "type %s in %s" % (ta.data_type, what), bad)
                    if not isinstance(lo, pydsdl.ServiceType):
                        value_contract(lo.bit_length_set, tw.bit_length_set, "bit length set of %s" % what, bad)
        elif item["kind"] == "values":
            for lo, vs in zip(loaded, item["specs"]):
                out["checked"] += 1
                value_contract(lo, build_value(pydsdl, vs), "expression value %r" % (vs,), bad)
        elif item["kind"] == "bls":
            for lo, tr in zip(loaded, item["trees"]):
                out["checked"] += 1
                tw, _ = GB.Builder(pydsdl.BitLengthSet, random.Random(0)).build(totuple(tr))
                value_contract(lo, tw, "bit length set", bad, compare_str=False)
    json.dump(out, open(sys.argv[2], "w"))


if __name__ == "__main__":
    main()
