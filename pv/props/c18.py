"""C18 - model objects are immutable values with a sound equality / hash / pickle contract."""
from __future__ import annotations

import copy
import json
import os
import inspect
import pickle
import random
import shutil
import typing
from fractions import Fraction

from pv.core import CaseTimeout, import_pydsdl
from pv.gen import bls as GB
from pv.gen import types as GT
from pv.mon import blscmp
from pv.ref import bls as R
from pv.ref.layout import Layout

TITLE = "equality / hash / pickle / accessor immutability"
RULE = (
    "pairs of objects built independently from descriptions that are equal (possibly through different build routes: "
    "text vs constructors) or exactly one edit apart (width, cast mode, capacity +-1, fixed vs variable, field name, "
    "version, sealed vs delimited, extent, structure vs union): composites, their field types, attributes, constants, "
    "expression values and bit length sets (including sets that are equal but built differently). For every pair: "
    "reflexivity, symmetry, == implies equal hashes, == implies same class / str / exact bit length set, equal "
    "descriptions imply ==; every list-returning public accessor (found by introspection of return annotations) is "
    "mutated and re-read; pickle round trip must preserve ==, hash, str, attributes, docs and layout answers. "
    "Non-trivial: pair differs in exactly one aspect or is equal via different routes; distinct by (descriptions, edit)."
)
ASSUMPTIONS = [
    "the reference for 'exactly equal bit length sets' is R-bls (expansion when small, otherwise min/max/residues: a "
    "difference there proves inequality, agreement does not prove equality and is then not used to demand ==)",
]
MIN_MONITORS = {"pair": 20000, "eq-implies-hash": 20000, "eq-implies-same": 3000, "equal-by-construction": 6000,
                "accessor-mutation": 15000, "pickle": 6000, "bls-pair": 4500, "bls-equal-sets": 1500, "expr-pair": 4000, "unchanged-after-pickling": 350, "accessor-first-read": 3000, "pickle-other-process": 1500, "foreign-operand": 20000, "wide-composite": 20}
THOROUGH_MIN_SCALE = 8


def plan(tier):
    if tier == "quick":
        return {"shards": 16, "params": {"n": 1600, "n_bls": 8000, "n_expr": 6000, "time_cap_s": 240}}
    return {"shards": 16, "params": {"n": 30000, "n_bls": 150000, "n_expr": 100000, "time_cap_s": 1500}, "hard_timeout_s": 3000}


# ------------------------------------------------------------------------------------------------------------------
# one-edit mutations of a universe description (applied to the last definition)
# ------------------------------------------------------------------------------------------------------------------
def edit_type(rng, t):
    k = t[0]
    if k == "uint":
        c = rng.random()
        if c < 0.5:
            n = t[1] + rng.choice([-1, 1])
            return ("uint", n, t[2]) if 1 <= n <= 64 else None, "width"
        return ("uint", t[1], "trunc" if t[2] == "sat" else "sat"), "cast-mode"
    if k == "int":
        if rng.random() < 0.5:
            n = t[1] + rng.choice([-1, 1])
            return ("int", n) if 2 <= n <= 64 else None, "width"
        return ("uint", t[1], "sat"), "signedness"
    if k == "float":
        if rng.random() < 0.5:
            return ("float", {16: 32, 32: 64, 64: 16}[t[1]], t[2]), "width"
        return ("float", t[1], "trunc" if t[2] == "sat" else "sat"), "cast-mode"
    if k == "bool":
        return ("uint", 1, "sat"), "bool-vs-uint1"
    if k in ("fixed", "var"):
        c = rng.random()
        if c < 0.35:
            n = t[2] + rng.choice([-1, 1])
            return (k, t[1], n) if n >= 1 else None, "capacity"
        if c < 0.6 and t[1][0] != "utf8":
            return ("var" if k == "fixed" else "fixed", t[1], t[2]), "fixed-vs-variable"
        if t[1][0] in ("byte", "utf8"):
            return (k, ("uint", 8, "trunc"), t[2]), "byte-vs-uint8"
        if t[1][0] == "ref":
            return None, ""
        e, what = edit_type(rng, t[1])
        return ((k, e, t[2]) if e is not None else None), "element-" + what
    return None, ""


def edit_universe(rng, u):
    """Returns (u2, what) with exactly one described aspect changed in the last definition, or (None, '')."""
    u2 = copy.deepcopy(u)
    d = u2[-1]
    choices = ["version", "sealing", "name"]
    typed = [i for i, f in enumerate(d["fields"]) if "type" in f]
    if typed:
        choices += ["field-type"] * 4 + ["field-name"]
    if not d["sealed"]:
        choices.append("extent")
    if any("pad" in f for f in d["fields"]):
        choices.append("padding-width")
    if d["kind"] == "struct" and len(typed) >= 2 and len(typed) == len(d["fields"]):
        choices.append("kind")
    if d["kind"] == "union":
        choices.append("kind")
    c = rng.choice(choices)
    if c == "version":
        d["ver"] = (d["ver"][0], d["ver"][1] + 1) if rng.random() < 0.5 else (d["ver"][0] + 1, d["ver"][1])
        return u2, c
    if c == "name":
        d["name"] = d["name"] + "x"
        return u2, c
    if c == "sealing":
        lay = Layout(u2)
        mx = R.ref_max(lay.inner_tree(d))
        if d["sealed"]:
            d["sealed"], d["extent"] = False, mx + 8 * rng.choice([0, 1, 4])
        else:
            d["sealed"], d["extent"] = True, None
        return u2, c
    if c == "extent":
        d["extent"] += 8 * rng.choice([1, 2, 64])
        return u2, c
    if c == "padding-width":
        i = rng.choice([i for i, f in enumerate(d["fields"]) if "pad" in f])
        n = d["fields"][i]["pad"] + rng.choice([-1, 1])
        if not 1 <= n <= 64:
            return None, ""
        d["fields"][i]["pad"] = n
        return u2, c
    if c == "kind":
        d["kind"] = "union" if d["kind"] == "struct" else "struct"
        return u2, c
    i = rng.choice(typed)
    if c == "field-name":
        d["fields"][i]["name"] += "_"
        return u2, c
    t2, what = edit_type(rng, d["fields"][i]["type"])
    if t2 is None:
        return None, ""
    d["fields"][i]["type"] = t2
    # keep a delimited definition valid
    if not d["sealed"]:
        lay = Layout(u2)
        mx = R.ref_max(lay.inner_tree(d))
        if d["extent"] < mx:
            return None, ""
    return u2, "field-" + what


def trees_differ(t1, t2):
    """True: the sets certainly differ. False: certainly equal (expanded). None: unknown."""
    if R.ref_min(t1) != R.ref_min(t2) or R.ref_max(t1) != R.ref_max(t2):
        return True
    m1, m2 = {}, {}
    for d in (2, 3, 5, 7, 8, 16, 32, 64):
        if R.ref_mod_mask(t1, d, m1) != R.ref_mod_mask(t2, d, m2):
            return True
    try:
        if R.ref_max(t1) > 200000:
            raise R.TooBig
        return R.ref_expand_mask(t1, limit_bits=1 << 18) != R.ref_expand_mask(t2, limit_bits=1 << 18)
    except R.TooBig:
        return None


# ------------------------------------------------------------------------------------------------------------------
# generic pair contract
# ------------------------------------------------------------------------------------------------------------------
def safe_eq(a, b):
    r = a == b
    if not isinstance(r, bool):
        return "non-bool %r" % (r,)
    return r


def pair_contract(ctx, a, b, what, case):
    """Reflexivity, symmetry, hash consistency. Returns the value of a == b."""
    ctx.mon("pair")
    for x in (a, b):
        if safe_eq(x, x) is not True or (x != x):
            ctx.violation("C18/reflexivity", "%s: x == x is not True for %r" % (what, x), case)
    ab, ba = safe_eq(a, b), safe_eq(b, a)
    if ab != ba:
        ctx.violation("C18/symmetry", "%s: (a == b) = %r but (b == a) = %r for %r / %r" % (what, ab, ba, a, b), case)
    if (a != b) == ab:
        ctx.violation("C18/ne-consistency", "%s: a != b is not the negation of a == b" % what, case)
    ctx.mon("eq-implies-hash")
    if ab is True and hash(a) != hash(b):
        ctx.violation("C18/hash", "%s: equal objects with different hashes: %r / %r" % (what, a, b), case)
    if hash(a) != hash(a):
        ctx.violation("C18/hash", "%s: unstable hash" % what, case)
    return ab


def list_accessors(cls):
    out = []
    for name, member in inspect.getmembers(cls):
        if name.startswith("_") or not isinstance(member, property) or member.fget is None:
            continue
        try:
            hints = typing.get_type_hints(member.fget)
        except Exception:  # noqa
            hints = getattr(member.fget, "__annotations__", {})
        ret = hints.get("return")
        s = str(ret)
        if ret is not None and ("List[" in s or "list[" in s or s in ("list", "typing.List")):
            out.append(name)
    return out


def fingerprint(obj, pydsdl):
    """Everything observable about a model object that must survive accessor mutation and pickling."""
    out = [type(obj).__name__, str(obj), repr(obj)]
    if isinstance(obj, pydsdl.CompositeType):
        out += [obj.full_name, obj.short_name, obj.full_namespace, obj.root_namespace, tuple(obj.name_components),
                tuple(obj.namespace_components), tuple(obj.version), obj.deprecated, obj.fixed_port_id, obj.doc,
                [(type(a).__name__, str(a), a.doc, str(getattr(a, "value", ""))) for a in obj.attributes],
                [str(f) for f in obj.fields], [str(f) for f in obj.fields_except_padding], [str(c) for c in obj.constants],
                str(obj.source_file_path), obj.has_parent_service, obj.alignment_requirement]
        if not isinstance(obj, pydsdl.ServiceType):
            b = obj.bit_length_set
            out += [obj.extent, b.min, b.max, sorted(b % 8), sorted(b % 32), str(b),
                    [(str(f), o.min, o.max, sorted(o % 8)) for f, o in obj.iterate_fields_with_offsets()]]
        else:
            out += [fingerprint(obj.request_type, pydsdl), fingerprint(obj.response_type, pydsdl)]
        if isinstance(obj, pydsdl.DelimitedType):
            out += [str(obj.inner_type), obj.inner_type.extent, obj.delimiter_header_type.bit_length]
        if isinstance(obj.inner_type, pydsdl.UnionType):
            out += [obj.inner_type.tag_field_type.bit_length, obj.inner_type.number_of_variants]
    elif isinstance(obj, pydsdl.SerializableType):
        b = obj.bit_length_set
        out += [b.min, b.max, sorted(b % 8), obj.alignment_requirement]
    return out


def accessor_mutation(ctx, obj, pydsdl, case, twin=None):
    """
    twin: an object built in exactly the same way that has not been touched. When given, nothing at all is read from obj
    before its accessors are mutated, so that the list handed out by the very first read of each accessor is the one
    under test (an accessor that memoises may hand out its internal list only on that first read).
    """
    if twin is not None:
        ctx.mon("accessor-first-read")
    before = fingerprint(obj if twin is None else twin, pydsdl)
    for name in list_accessors(type(obj)):
        ctx.mon("accessor-mutation")
        got = getattr(obj, name)
        if not isinstance(got, list):
            continue
        snapshot = list(got)
        got.append("__pv_sentinel__")
        if snapshot:
            got[0] = None
            got.reverse()
        again = getattr(obj, name)
        if list(again) != snapshot or any(x is not y for x, y in zip(again, snapshot)):
            ctx.violation("C18/accessor-returns-internal-list/" + name,
                          "%s.%s: mutating the returned list changed what the accessor returns next (%r -> %r)" % (
                              type(obj).__name__, name, [str(x) for x in snapshot][:6], [str(x) for x in again][:6]), case)
            # undo so that later checks observe the original object
            try:
                got[:] = snapshot
            except Exception:  # noqa
                pass
    after = fingerprint(obj, pydsdl)
    if before != after:
        ctx.violation("C18/accessor-mutation-visible", "%s: object changed after mutating lists returned by its accessors" % type(obj).__name__, case)


def pickle_contract(ctx, obj, pydsdl, case):
    ctx.mon("pickle")
    try:
        obj2 = pickle.loads(pickle.dumps(obj))
    except Exception as ex:  # noqa
        ctx.violation("C18/pickle-fails", "%s cannot be pickled: %r" % (type(obj).__name__, ex), case)
        return
    if safe_eq(obj, obj2) is not True or safe_eq(obj2, obj) is not True or hash(obj) != hash(obj2):
        ctx.violation("C18/pickle-eq", "pickle round trip of %s is not equal / hash-equal" % (obj,), case)
    if fingerprint(obj, pydsdl) != fingerprint(obj2, pydsdl):
        ctx.violation("C18/pickle-content", "pickle round trip of %s changes str/attributes/docs/layout" % (obj,), case)


# ------------------------------------------------------------------------------------------------------------------
# workloads
# ------------------------------------------------------------------------------------------------------------------
def walk_types(tobj, tdesc, u, lay, pydsdl, out):
    out.append((tobj, tdesc))
    if tdesc[0] in ("fixed", "var"):
        walk_types(tobj.element_type, tdesc[1], u, lay, pydsdl, out)


def type_case(ctx, pydsdl, u, seed, text_first, workdir):
    rng = random.Random(seed)
    case = {"universe": u, "seed": seed, "text_first": text_first}
    A = GT.construct_universe(pydsdl, u, random.Random(seed + 1))
    if text_first:
        d = workdir / "eq"
        try:
            B = GT.read_universe(pydsdl, u, d, random.Random(seed))
        finally:
            shutil.rmtree(d, ignore_errors=True)
        ctx.cls("equal-via-text-vs-ctor")
    else:
        B = GT.construct_universe(pydsdl, u, random.Random(seed + 2))
        ctx.cls("equal-via-ctor-twice")
    lay = Layout(u)
    # untouched objects: nothing has been read from F1 when its accessors are mutated; F2 is its identically built twin
    F1, F2 = GT.construct_universe(pydsdl, u, random.Random(seed + 3)), GT.construct_universe(pydsdl, u, random.Random(seed + 3))
    for f1, f2 in zip(F1, F2):
        accessor_mutation(ctx, f1, pydsdl, case, twin=f2)
        if f1.inner_type is not f1:
            accessor_mutation(ctx, f1.inner_type, pydsdl, case, twin=f2.inner_type)
    if text_first:
        d = workdir / "eq"
        try:
            T1 = GT.read_universe(pydsdl, u, d, random.Random(seed))
            T2 = GT.read_universe(pydsdl, u, d, random.Random(seed))
        finally:
            shutil.rmtree(d, ignore_errors=True)
        for t1, t2 in zip(T1, T2):
            accessor_mutation(ctx, t1, pydsdl, case, twin=t2)
    # equal by construction
    for i, (a, b) in enumerate(zip(A, B)):
        ctx.mon("equal-by-construction")
        if pair_contract(ctx, a, b, "composite %s" % a, case) is not True:
            ctx.violation("C18/equal-descriptions-unequal", "composites built from the same description are not equal: %s" % a, case)
        for (fa, fb), fdesc in zip(zip(a.attributes, b.attributes), u[i]["fields"]):
            ctx.mon("equal-by-construction")
            if pair_contract(ctx, fa, fb, "attribute %s" % fa, case) is not True:
                ctx.violation("C18/equal-descriptions-unequal", "attributes built from the same description are not equal: %s" % fa, case)
            pair_contract(ctx, fa.data_type, fb.data_type, "type %s" % fa.data_type, case)
        accessor_mutation(ctx, a, pydsdl, case)
        if rng.random() < 0.5:
            pickle_contract(ctx, b, pydsdl, case)
            for f in b.fields[:3]:
                pickle_contract(ctx, f, pydsdl, case)
    foreign_operands(ctx, pydsdl, [x for x in A[:2]] + [f for a in A[:2] for f in a.attributes[:2]] + [f.data_type for a in A[:2] for f in a.attributes[:2]] +
                     [a.bit_length_set for a in A[:1]] + [pydsdl.Rational(8), pydsdl.String("abc"), pydsdl.Boolean(True), pydsdl.Set([pydsdl.Rational(8)])], case)
    # all pairs within the universe: == must imply same class / str / exact set
    flat = []
    for i, a in enumerate(A):
        flat.append((a, ("ref", i)))
        for f, fd in zip(a.fields, u[i]["fields"]):
            td = ("void", fd["pad"]) if "pad" in fd else fd["type"]
            if td[0] != "ref":
                walk_types(f.data_type, td, u, lay, pydsdl, flat)
    for _ in range(min(40, len(flat) * 2)):
        (x, xd), (y, yd) = rng.choice(flat), rng.choice(flat)
        eq = pair_contract(ctx, x, y, "types %s / %s" % (x, y), case)
        if eq is True:
            ctx.mon("eq-implies-same")
            if type(x) is not type(y) or str(x) != str(y):
                ctx.violation("C18/eq-ignores-kind-or-str", "%r == %r" % (x, y), case)
            elif (R.ref_min(lay.tree(xd)), R.ref_max(lay.tree(xd))) != (R.ref_min(lay.tree(yd)), R.ref_max(lay.tree(yd))) or \
                    (x.bit_length_set != y.bit_length_set):
                ctx.violation("C18/eq-ignores-bls", "%r == %r although their bit length sets differ" % (x, y), case)
        elif xd == yd and eq is not True:
            ctx.violation("C18/equal-descriptions-unequal", "%r != %r for the same description" % (x, y), case)
    # one edit apart
    for _ in range(4):
        u2, what = edit_universe(rng, u)
        if u2 is None:
            continue
        try:
            C = GT.construct_universe(pydsdl, u2)
        except pydsdl.InvalidDefinitionError:
            ctx.cls("edit-invalid")
            continue
        a, c = A[-1], C[-1]
        c2 = dict(case, edited=u2, edit=what)
        eq = pair_contract(ctx, a, c, "composite edit %s" % what, c2)
        lay2 = Layout(u2)
        # BitLengthSet equality is allowed to err towards equality (it is approximate by design), so the set part of the
        # oracle only demands a distinction where the longest/shortest representation differs or where pydsdl's own
        # set comparison already says "different".
        ta, tc = lay.definition(len(u) - 1)["tree"], lay2.definition(len(u2) - 1)["tree"]
        differ = (R.ref_min(ta), R.ref_max(ta)) != (R.ref_min(tc), R.ref_max(tc)) or (a.bit_length_set != c.bit_length_set)
        must_differ = (type(a) is not type(c)) or str(a) != str(c) or differ
        ctx.mon("eq-implies-same")
        if eq is True and must_differ:
            ctx.violation("C18/eq-ignores-difference", "composites one edit apart (%s) compare equal although class/str/bit length set differ: %r vs %r" % (what, a, c), c2)
        # arrays (and fields / constants typed by them) over the two revisions: the element types share name and version, so the
        # string forms coincide and only the bit length sets tell the arrays apart
        for kind, cap in (("fixed", rng.choice([1, 2, 3])), ("var", rng.choice([1, 2, 3]))):
            mk = pydsdl.FixedLengthArrayType if kind == "fixed" else pydsdl.VariableLengthArrayType
            xa, xc = mk(a, cap), mk(c, cap)
            eqx = pair_contract(ctx, xa, xc, "%s array over composites one edit apart (%s)" % (kind, what), c2)
            tx, ty = lay.tree((kind, ("ref", len(u) - 1), cap)), lay2.tree((kind, ("ref", len(u2) - 1), cap))
            differ_x = (R.ref_min(tx), R.ref_max(tx)) != (R.ref_min(ty), R.ref_max(ty)) or (xa.bit_length_set != xc.bit_length_set)
            ctx.mon("eq-implies-same")
            if eqx is True and (str(xa) != str(xc) or differ_x):
                ctx.violation("C18/eq-ignores-difference", "%s arrays of %d over composites one edit apart (%s) compare equal although the bit length sets differ: %r vs %r" % (
                    kind, cap, what, xa, xc), c2)
            pair_contract(ctx, pydsdl.Field(xa, "arr"), pydsdl.Field(xc, "arr"), "fields typed by such arrays", c2)
        for fa, fc, fd, fd2 in zip(a.attributes, c.attributes, u[-1]["fields"], u2[-1]["fields"]):
            e2 = pair_contract(ctx, fa, fc, "attribute edit %s" % what, c2)
            same_desc = fd == fd2 and fa.data_type == fc.data_type
            if fd != fd2 and e2 is True and str(fa) != str(fc):
                ctx.violation("C18/eq-ignores-difference", "attributes %s / %s compare equal" % (fa, fc), c2)
            if fd == fd2 and (fd.get("type", ("x",))[0] != "ref") and e2 is not True:
                ctx.violation("C18/equal-descriptions-unequal", "attributes %s / %s built from the same description differ" % (fa, fc), c2)
            _ = same_desc
        ctx.case((GT.universe_sig(u), what, GT.universe_sig(u2)), True, classes=["edit-" + what])
    ctx.case((GT.universe_sig(u), "equal", text_first), True, classes=["equal-by-construction"])


EQUIVALENT_REWRITES = ["concat-vs-repeat", "union-order", "double-pad", "concat-order", "range-vs-union", "copy", "same"]


def bls_pair(rng):
    """(t1, t2, relation) relation in {'equal', 'unknown'}."""
    t = GB.gen_tree(rng, rng.choice([1, 2, 2, 3]), False)
    r = rng.random()
    if r < 0.55:
        how = rng.choice(EQUIVALENT_REWRITES)
        if how == "concat-vs-repeat":
            k = rng.choice([1, 2, 3])
            return ("repeat", t, k), ("concat", tuple([t] * k)), "equal"
        if how == "union-order":
            t2 = GB.gen_tree(rng, 1, False)
            return ("union", (t, t2)), ("union", (t2, t)), "equal"
        if how == "concat-order":
            t2 = GB.gen_tree(rng, 1, False)
            return ("concat", (t, t2)), ("concat", (t2, t)), "equal"
        if how == "double-pad":
            a = rng.choice([1, 2, 4, 8, 16])
            return ("pad", ("pad", t, a), a), ("pad", t, a), "equal"
        if how == "range-vs-union":
            return ("range", t, 2), ("union", (("leaf", (0,)), t, ("repeat", t, 2))), "equal"
        return t, t, "equal"
    return t, GB.gen_tree(rng, rng.choice([1, 2, 2, 3]), False), "unknown"


def bls_case(ctx, pydsdl, rng):
    t1, t2, rel = bls_pair(rng)
    try:
        for t in (t1, t2):
            if R.ref_max(t) > 60000:
                return
            em = {}
            R.ref_expand_mask(t, _memo=em)
            m = R.CostMeter(60000)
            m.mod(t, 32)
    except R.TooBig:
        return
    case = {"t1": t1, "t2": t2, "rel": rel}
    B = pydsdl.BitLengthSet
    b1, _ = GB.Builder(B, random.Random(rng.random())).build(t1)
    b2, _ = GB.Builder(B, random.Random(rng.random())).build(t2)
    ctx.mon("bls-pair")
    eq = pair_contract(ctx, b1, b2, "bit length sets", case)
    exact_equal = R.ref_expand(t1) == R.ref_expand(t2)
    if exact_equal:
        ctx.mon("bls-equal-sets")
        if eq is not True:
            ctx.violation("C18/bls-equal-sets-unequal", "equal sets compare unequal: %s vs %s" % (R.render(t1), R.render(t2)), case)
        raw = R.ref_expand(t2)
        if rng.random() < 0.3 and len(raw) < 200:
            if (b1 == raw) is not True or (b1 == frozenset(raw)) is not True:
                ctx.violation("C18/bls-equal-sets-unequal", "%s != its own element set" % R.render(t1), case)
    ctx.case(("bls", t1, t2), t1 != t2, classes=["bls-" + rel, "bls-exactly-equal" if exact_equal else "bls-different"])
    if rng.random() < 0.1:
        pickle_contract(ctx, b1, pydsdl, case)


def expr_case(ctx, pydsdl, rng):
    case = {}
    kind = rng.choice(["rational", "rational", "set", "string", "bool", "mixed"])
    if kind == "rational":
        n, d, k = rng.randrange(-50, 50), rng.randrange(1, 20), rng.randrange(1, 9)
        a, b = pydsdl.Rational(Fraction(n, d)), pydsdl.Rational(Fraction(n * k, d * k))
        expect = True
        if rng.random() < 0.4:
            b, expect = pydsdl.Rational(Fraction(n * k + 1, d * k)), False
        if d == 1 and rng.random() < 0.3:
            b = pydsdl.Rational(n)
            expect = True
    elif kind == "set":
        els = [Fraction(rng.randrange(-9, 9), rng.randrange(1, 4)) for _ in range(rng.randrange(1, 6))]
        a = pydsdl.Set([pydsdl.Rational(x) for x in els])
        sh = els[:]
        rng.shuffle(sh)
        b = pydsdl.Set([pydsdl.Rational(x) for x in sh + sh[:1]])
        expect = True
        if rng.random() < 0.4:
            b, expect = pydsdl.Set([pydsdl.Rational(x) for x in sh] + [pydsdl.Rational(1000)]), False
    elif kind == "string":
        import unicodedata

        s = "".join(rng.choice(["a", "b", "\u00e9", "\u20ac", "\u00c5", "\uac00", "\ufb03", "\u1e69"]) for _ in range(rng.randrange(0, 4)))
        a, b, expect = pydsdl.String(s), pydsdl.String("" + s), True
        r = rng.random()
        if r < 0.3:
            b, expect = pydsdl.String(s + "x"), False
        elif r < 0.65:
            # canonically equivalent spellings (NFC vs NFD): whether they are == is not pinned, the contract is
            b, expect = pydsdl.String(unicodedata.normalize(rng.choice(["NFD", "NFC", "NFKD"]), s)), None
            if b.native_value == s:
                expect = True
    elif kind == "bool":
        x, y = rng.random() < 0.5, rng.random() < 0.5
        a, b, expect = pydsdl.Boolean(x), pydsdl.Boolean(y), x == y
    else:
        a, b, expect = rng.choice([pydsdl.Rational(1), pydsdl.Boolean(True), pydsdl.String("1"), pydsdl.Set([pydsdl.Rational(1)])]), \
            rng.choice([pydsdl.Rational(0), pydsdl.Boolean(False), pydsdl.String("0"), pydsdl.Set([pydsdl.Boolean(True)])]), False
    case = {"a": repr(a), "b": repr(b), "kind": kind}
    ctx.mon("expr-pair")
    eq = pair_contract(ctx, a, b, "expression values", case)
    if expect is not None and eq is not expect:
        ctx.violation("C18/expr-eq", "%r == %r is %r, expected %r" % (a, b, eq, expect), case)
    if eq is True and kind in ("string", "rational", "bool"):
        # equal values must be interchangeable as members of a set value
        sa, sb = pydsdl.Set([a]), pydsdl.Set([b])
        if not (sa == sb and hash(sa) == hash(sb)):
            ctx.violation("C18/hash", "%r == %r but Set([a]) != Set([b]) or their hashes differ" % (a, b), case)
    if rng.random() < 0.2:
        pickle_contract(ctx, a, pydsdl, case)
    ctx.case(("expr", repr(a), repr(b)), True, classes=["expr-" + kind])


def service_case(ctx, pydsdl, rng, workdir):
    """Services (not directly serializable) through the front door: eq/hash/pickle/accessors."""
    d = workdir / "svc"
    txt = "uint%d a\n@sealed\n---\nfloat%d[<=%d] b\n@extent %d\n" % (rng.randrange(1, 65), rng.choice([16, 32, 64]), rng.randrange(1, 9), 8 * rng.randrange(80, 200))
    case = {"service": txt}
    try:
        objs = []
        for sub in ("one", "two"):
            p = d / sub / "svcns"
            p.mkdir(parents=True)
            (p / "S.1.0.dsdl").write_text(txt)
            objs.append(pydsdl.read_namespace(p, [])[0])
    finally:
        shutil.rmtree(d, ignore_errors=True)
    a, b = objs
    # untouched twins first: same text read twice from the same path
    try:
        p = d / "three" / "svcns"
        p.mkdir(parents=True)
        (p / "S.1.0.dsdl").write_text(txt)
        f1, f2 = pydsdl.read_namespace(p, [])[0], pydsdl.read_namespace(p, [])[0]
    finally:
        shutil.rmtree(d, ignore_errors=True)
    accessor_mutation(ctx, f1, pydsdl, case, twin=f2)
    accessor_mutation(ctx, f1.response_type, pydsdl, case, twin=f2.response_type)
    # source paths differ, names/versions/sections are equal
    if pair_contract(ctx, a, b, "service types", case) is not True:
        ctx.violation("C18/equal-descriptions-unequal", "equal services read from two copies compare unequal", case)
    accessor_mutation(ctx, a, pydsdl, case)
    accessor_mutation(ctx, a.request_type, pydsdl, case)
    pickle_contract(ctx, a, pydsdl, case)
    ctx.case(("svc", txt), True, classes=["service"])


def defs_case(ctx, pydsdl, rng, workdir):
    """
    Definitions with constants (booleans of both values, integers, floats), comments and services, read twice through the
    front door: equal by construction; pickling one of them must neither change the copy nor any *other* live object.
    """
    from pv.gen import defs as GD
    from pv.props.c03 import fix_docs

    deps = GT.gen_universe(rng, n_defs=rng.choice([0, 1]), small=True, text_ok=True, max_fields=3)
    desc = GD.gen_definition(rng, deps)
    fix_docs(desc, rng)
    text, _ = GD.render(desc, GD.Policy(random.Random(rng.random()), plain=True))
    text = "bool PV_TRUE = true\nbool PV_FALSE = false\nuint8 PV_SEVEN = 7\n" + text if not text.lstrip().startswith("#") else text
    case = {"definition": text, "deps": deps}
    objs = []
    try:
        for sub in ("one", "two"):
            base = workdir / "defs" / sub
            GT.write_universe(deps, base)
            p = base / GT.ROOT / "Main.1.0.dsdl"
            p.parent.mkdir(parents=True, exist_ok=True)
            p.write_text(text, encoding="utf-8")
            objs.append([t for t in pydsdl.read_namespace(base / GT.ROOT, []) if t.short_name == "Main"][0])
    except pydsdl.InvalidDefinitionError:
        return
    finally:
        shutil.rmtree(workdir / "defs", ignore_errors=True)
    a, b = objs
    fa, fb = fingerprint(a, pydsdl), fingerprint(b, pydsdl)
    ctx.mon("equal-by-construction")
    if pair_contract(ctx, a, b, "definition read twice", case) is not True:
        ctx.violation("C18/equal-descriptions-unequal", "the same definition read from two copies gives unequal objects", case)
    for c1, c2 in zip(a.constants if not isinstance(a, pydsdl.ServiceType) else a.request_type.constants,
                      b.constants if not isinstance(b, pydsdl.ServiceType) else b.request_type.constants):
        pair_contract(ctx, c1, c2, "constant %s" % c1, case)
        pair_contract(ctx, c1.value, c2.value, "constant value %s" % c1.value, case)
    pickle_contract(ctx, a, pydsdl, case)
    for c in (a.constants if not isinstance(a, pydsdl.ServiceType) else a.request_type.constants)[:4]:
        pickle_contract(ctx, c, pydsdl, case)
        pickle_contract(ctx, c.value, pydsdl, case)
    # immutability of everything else: neither the pickled object nor its independently read twin may have changed
    ctx.mon("unchanged-after-pickling")
    if fingerprint(a, pydsdl) != fa:
        ctx.violation("C18/object-changed-by-pickling", "an object changed while it was pickled / unpickled", case)
    if fingerprint(b, pydsdl) != fb:
        ctx.violation("C18/other-object-changed-by-pickling", "pickling / unpickling one object changed an unrelated live object: %r -> %r" % (
            [x for x in fb if x not in fingerprint(b, pydsdl)][:3], [x for x in fingerprint(b, pydsdl) if x not in fb][:3]), case)
    if str(pydsdl.Boolean(False)) != "false" or str(pydsdl.Boolean(True)) != "true" or bool(pydsdl.Boolean(False)) or pydsdl.Rational(7).native_value != 7:
        ctx.violation("C18/other-object-changed-by-pickling", "freshly constructed expression values are wrong after a pickle round trip", case)
    ctx.case(("defs", text), True, classes=["definition-with-constants"])


def attr_case(ctx, pydsdl, rng):
    """
    Attributes of every kind (field, padding, constant) built through the public constructors around the same type and
    name: all pairs obey the pair contract, and equality distinguishes kind, type, name and constant value.
    """
    CM = pydsdl.PrimitiveType.CastMode
    k = rng.choice(["uint", "int", "float", "bool"])
    if k == "uint":
        n = rng.randrange(8, 65)
        mk = lambda: pydsdl.UnsignedIntegerType(n, CM.SATURATED)  # noqa
        v1, v2 = pydsdl.Rational(rng.randrange(0, 100)), pydsdl.Rational(rng.randrange(100, 200))
    elif k == "int":
        n = rng.randrange(9, 65)
        mk = lambda: pydsdl.SignedIntegerType(n, CM.SATURATED)  # noqa
        v1, v2 = pydsdl.Rational(-rng.randrange(0, 100)), pydsdl.Rational(rng.randrange(100, 200))
    elif k == "float":
        n = rng.choice([16, 32, 64])
        mk = lambda: pydsdl.FloatType(n, CM.SATURATED)  # noqa
        v1, v2 = pydsdl.Rational(Fraction(rng.randrange(0, 100), 4)), pydsdl.Rational(Fraction(rng.randrange(401, 800), 4))
    else:
        mk = lambda: pydsdl.BooleanType()  # noqa
        v1, v2 = pydsdl.Boolean(True), pydsdl.Boolean(False)
    name, other = rng.sample(["x", "value", "FOO", "a1", "Ab", "limit"], 2)
    pad = rng.choice([1, 7, 8, 16])
    objs = [
        ("field", name, "t", None, pydsdl.Field(mk(), name)),
        ("field", name, "t", None, pydsdl.Field(mk(), name, "some doc")),
        ("field", other, "t", None, pydsdl.Field(mk(), other)),
        ("field", name, "u3", None, pydsdl.Field(pydsdl.UnsignedIntegerType(3, CM.TRUNCATED), name)),
        ("const", name, "t", "v1", pydsdl.Constant(mk(), name, v1)),
        ("const", name, "t", "v1", pydsdl.Constant(mk(), name, v1, "doc")),
        ("const", name, "t", "v2", pydsdl.Constant(mk(), name, v2)),
        ("const", other, "t", "v1", pydsdl.Constant(mk(), other, v1)),
        ("pad", "", "void%d" % pad, None, pydsdl.PaddingField(pydsdl.VoidType(pad))),
        ("pad", "", "void%d" % pad, None, pydsdl.PaddingField(pydsdl.VoidType(pad), "doc")),
        ("pad", "", "void%d" % (pad + 1), None, pydsdl.PaddingField(pydsdl.VoidType(pad + 1))),
    ]
    case = {"attr": [k, locals().get("n"), name, other, pad, str(v1), str(v2)]}
    for i in range(len(objs)):
        for j in range(i, len(objs)):
            (ka, na, ta, va, a), (kb, nb, tb, vb, b) = objs[i], objs[j]
            eq = pair_contract(ctx, a, b, "attributes %s / %s" % (a, b), case)
            same = (ka, na, ta, va) == (kb, nb, tb, vb)
            ctx.mon("attr-pair")
            if same and eq is not True:
                ctx.violation("C18/equal-descriptions-unequal", "attributes of equal kind, type, name and value differ: %r / %r" % (a, b), case)
            if not same and eq is True:
                ctx.violation("C18/eq-ignores-difference", "attributes that differ in kind, type, name or value compare equal: %r (%s) == %r (%s)" % (
                    a, type(a).__name__, b, type(b).__name__), case)
    for o in objs[:5]:
        pickle_contract(ctx, o[-1], pydsdl, case)
    ctx.case(("attr", repr(case)), True, classes=["attribute-kinds-" + k])


FOREIGN_OPERANDS = [None, 0, 8, 3.5, "", "abc", b"", [], [8], (), {}, set(), frozenset(), frozenset({8}), object(), Fraction(1, 2), True]


def foreign_operands(ctx, pydsdl, objs, case):
    """== / != between a model object and something of another class answer (False or, by documented convenience, True); they never raise."""
    for o in objs:
        for f in FOREIGN_OPERANDS + [x for x in objs if type(x) is not type(o)][:6]:
            ctx.mon("foreign-operand")
            try:
                r1, r2, r3 = (o == f), (f == o), (o != f)
                if not all(isinstance(r, bool) for r in (r1, r2, r3)) or r1 != r2 or r3 == r1:
                    ctx.violation("C18/foreign-operand", "%r (%s) compared with %r (%s): ==: %r, reflected: %r, !=: %r" % (
                        o, type(o).__name__, f, type(f).__name__, r1, r2, r3), case)
            except Exception as ex:  # noqa
                ctx.violation("C18/foreign-operand", "comparing %s %r with %s %r raised %r" % (type(o).__name__, o, type(f).__name__, f, ex), case)


def wide_case(ctx, pydsdl, rng, workdir):
    """
    Composites with many fields (the operators of the bit length set nest a few levels per field): equality, hash and the
    pickle round trip are part of the contract for them as for any other composite.
    """
    n = rng.choice([40, 80, 110, 150, 300])
    kind = rng.choice(["struct", "struct", "union"])
    lines = (["@union"] if kind == "union" else []) + ["%s w%d" % (rng.choice(["uint8", "uint16[<=2]", "bool", "float32", "int7[3]"]), i) for i in range(n)]
    text = "\n".join(lines) + rng.choice(["\n@sealed\n", "\n@extent %d\n" % (64 * n)])
    d = workdir / "wide"
    shutil.rmtree(d, ignore_errors=True)
    (d / "widens").mkdir(parents=True)
    (d / "widens" / "Wide.1.0.dsdl").write_text(text)
    case = {"wide": n, "kind": kind, "text_head": text[:80]}
    try:
        a = pydsdl.read_namespace(d / "widens", [])[0]
        b = pydsdl.read_namespace(d / "widens", [])[0]
    finally:
        shutil.rmtree(d, ignore_errors=True)
    ctx.mon("wide-composite")
    if pair_contract(ctx, a, b, "wide composite", case) is not True:
        ctx.violation("C18/equal-descriptions-unequal", "a composite of %d fields read twice is not equal to itself" % n, case)
    ctx.mon("pickle")
    for obj, what in ((a, "composite"), (a.bit_length_set, "bit length set")):
        try:
            obj2 = pickle.loads(pickle.dumps(obj))
        except RecursionError:
            ctx.violation("C18/pickle-fails/recursion-depth", "a %s of a composite with %d fields cannot be pickled: RecursionError" % (what, n), case)
            continue
        except Exception as ex:  # noqa
            ctx.violation("C18/pickle-fails", "%s of a composite with %d fields cannot be pickled: %r" % (what, n, ex), case)
            continue
        if safe_eq(obj, obj2) is not True or hash(obj) != hash(obj2):
            ctx.violation("C18/pickle-eq", "pickle round trip of a wide %s is not equal / hash-equal" % what, case)
    ctx.case(("wide", n, kind), True, classes=["wide-composite-%d" % n])


def value_spec(rng, kinds=("rat", "rat", "bool", "str", "set", "set")):
    k = rng.choice(kinds)
    if k == "rat":
        return ["rat", rng.randrange(-50, 50), rng.randrange(1, 20)]
    if k == "bool":
        return ["bool", rng.random() < 0.5]
    if k == "str":
        return ["str", "".join(rng.choice(["a", "b", "Z", "\u00e9", "\u20ac", " ", "0"]) for _ in range(rng.randrange(0, 5)))]
    ek = rng.choice(["rat", "str", "bool"])
    return ["set", [value_spec(rng, (ek,)) for _ in range(rng.randrange(1, 6))]]


def cross_process_pickle(ctx, pydsdl, universes, workdir, rng):
    """
    Pickles model objects here - after they have been hashed, compared and queried, as any user of read_namespace would have
    done - and lets another interpreter process with ANOTHER string-hash seed unpickle them and judge them against twins it
    builds itself (pv/props/c18_probe.py).  State that is only valid inside the process that computed it (a memoised hash,
    an iteration order) travels inside the pickle and shows up there.
    """
    import base64
    import subprocess
    from pv.core import PYTHON, child_env
    from pv.props.c18_probe import build_value, norm

    items = []
    for u, text in universes:
        routes = {"ctor": GT.construct_universe(pydsdl, u)}
        if text:
            d = workdir / "xp"
            try:
                routes["text"] = GT.read_universe(pydsdl, u, d)
            except pydsdl.Error:
                pass
            finally:
                shutil.rmtree(d, ignore_errors=True)
        for objs in routes.values():
            for o in objs:  # use the objects the way a program would before it stores them
                hash(o), o == o, len({o, o}), str(o)
                for a in o.attributes:
                    hash(a), hash(a.data_type)
                b = o.bit_length_set
                hash(b), b == b, b % 8, b.min, b.max, b.is_aligned_at_byte()
        items.append({"kind": "universe", "u": u, "pickle": base64.b64encode(pickle.dumps(routes)).decode(),
                      "fp": {r: [norm(fingerprint(o, pydsdl)) for o in objs] for r, objs in routes.items()}})
    specs = [value_spec(rng) for _ in range(60)]
    vals = [build_value(pydsdl, s) for s in specs]
    for v in vals:
        hash(v), str(v)
    items.append({"kind": "values", "specs": specs, "pickle": base64.b64encode(pickle.dumps(vals)).decode()})
    trees, sets = [], []
    for _ in range(40):
        t1, _t2, _rel = bls_pair(rng)
        try:
            if R.ref_max(t1) > 60000:
                continue
            R.CostMeter(60000).mod(t1, 32)
        except R.TooBig:
            continue
        b, _ = GB.Builder(pydsdl.BitLengthSet, random.Random(1)).build(t1)
        hash(b), b % 32
        trees.append(t1)
        sets.append(b)
    items.append({"kind": "bls", "trees": trees, "pickle": base64.b64encode(pickle.dumps(sets)).decode()})
    work = workdir / "xproc"
    work.mkdir(parents=True, exist_ok=True)
    spec_path, outp = work / "spec.json", work / "out.json"
    from pv.core import repo_root

    spec_path.write_text(json.dumps({"repo": str(repo_root()), "items": items}))
    mine = int(os.environ.get("PYTHONHASHSEED", "0") or 0)
    try:
        r = subprocess.run([PYTHON, "-m", "pv.props.c18_probe", str(spec_path), str(outp)], env=child_env(mine + 104729), cwd=str(work),
                           capture_output=True, text=True, timeout=600)
        if not outp.exists():
            ctx.inconclusive_case("cross-process pickle probe produced nothing: %s" % r.stderr[-600:])
            return
        out = json.loads(outp.read_text())
    except subprocess.TimeoutExpired:
        ctx.inconclusive_case("cross-process pickle probe timed out")
        return
    finally:
        shutil.rmtree(work, ignore_errors=True)
    ctx.mon("pickle-other-process", out["checked"])
    for v in out["violations"]:
        it = items[v["item"]]
        ctx.violation("C18/pickle-other-process/" + v["mech"], v["detail"], {"xproc": {k: it[k] for k in ("kind", "u", "specs", "trees") if k in it}})


def run_shard(ctx):
    pydsdl = import_pydsdl()
    rng = ctx.rng
    xproc = []
    for i in range(ctx.share(ctx.params["n"])):
        if ctx.out_of_time():
            break
        text_first = rng.random() < 0.35
        u = GT.gen_universe(rng, small=rng.random() < 0.5, text_ok=text_first)
        seed = rng.randrange(1 << 30)
        try:
            with ctx.watchdog(120):
                type_case(ctx, pydsdl, u, seed, text_first, ctx.tmp)
                if i % 4 == 0:
                    service_case(ctx, pydsdl, rng, ctx.tmp)
                if i % 2 == 0:
                    defs_case(ctx, pydsdl, rng, ctx.tmp)
        except CaseTimeout:
            ctx.inconclusive_case("watchdog", {"universe": u})
        except (pydsdl.Error, AssertionError, TypeError, ValueError, AttributeError) as ex:
            ctx.violation("C18/exception", "%r" % (ex,), {"universe": u, "seed": seed, "text_first": text_first})
        if i < 1:
            ctx.samples.append({"definitions": [GT.render_def(d, u) for d in u]})
        if len(xproc) < 40 and i % 2 == 0:
            xproc.append((u, text_first or i % 4 == 0))
    try:
        with ctx.watchdog(900):
            cross_process_pickle(ctx, pydsdl, xproc, ctx.tmp, rng)
    except CaseTimeout:
        ctx.inconclusive_case("watchdog (cross-process pickle)")
    for _ in range(ctx.share(ctx.params["n_bls"])):
        if ctx.out_of_time():
            break
        try:
            bls_case(ctx, pydsdl, rng)
        except AssertionError as ex:
            ctx.violation("C18/exception", "%r" % (ex,), {})
    for _ in range(ctx.share(ctx.params["n_expr"])):
        expr_case(ctx, pydsdl, rng)
    for _ in range(ctx.share(ctx.params["n_expr"]) // 4):
        attr_case(ctx, pydsdl, rng)
    for _ in range(max(2, ctx.share(ctx.params["n"]) // 20)):
        try:
            with ctx.watchdog(120):
                wide_case(ctx, pydsdl, rng, ctx.tmp)
        except CaseTimeout:
            ctx.inconclusive_case("watchdog (wide composite)")
    ctx.notes["list_accessors"] = {c.__name__: list_accessors(c) for c in (pydsdl.StructureType, pydsdl.UnionType, pydsdl.DelimitedType, pydsdl.ServiceType)}


def replay(ctx, case):
    from pv.props.c02 import fix_universe
    from pv.props.c01 import totuple

    pydsdl = import_pydsdl()
    if "xproc" in case:
        x = case["xproc"]
        cross_process_pickle(ctx, pydsdl, [(fix_universe(x["u"]), True)] if x.get("u") else [], ctx.tmp, random.Random(0))
    elif "universe" in case:
        type_case(ctx, pydsdl, fix_universe(case["universe"]), case["seed"], case["text_first"], ctx.tmp)
    elif "t1" in case:
        rng = random.Random(0)
        t1, t2 = totuple(case["t1"]), totuple(case["t2"])
        B = pydsdl.BitLengthSet
        b1, _ = GB.Builder(B, rng).build(t1)
        b2, _ = GB.Builder(B, rng).build(t2)
        eq = pair_contract(ctx, b1, b2, "bit length sets", case)
        if R.ref_expand(t1) == R.ref_expand(t2) and eq is not True:
            ctx.violation("C18/bls-equal-sets-unequal", "equal sets compare unequal", case)
    elif "attr" in case:
        for sd in range(200):
            attr_case(ctx, pydsdl, random.Random(sd))
    elif "service" in case:
        service_case(ctx, pydsdl, random.Random(0), ctx.tmp)
