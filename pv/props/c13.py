"""C13 - bad input yields InvalidDefinitionError with a path, never a crash / InternalError (M-tax classifier)."""
from __future__ import annotations

import random
import re
import os
from pathlib import Path
import shutil
import urllib.parse

from pv.core import CaseTimeout, import_pydsdl
from pv.gen import defs as GD
from pv.gen import fuzz as GF
from pv.gen import types as GT

TITLE = "robustness against bad input"
RULE = (
    "valid definitions from G-def (with a dependency universe) mutated at token level (delete/duplicate/swap/replace/"
    "insert from a dictionary of keywords, operators, brackets, quotes, escapes; 1-3 edits), by character noise (ASCII, "
    "control characters, Unicode letters/digits/spaces/BOM), pure noise texts, ~250 targeted corner statements (even roots "
    "of negatives, overflowing powers, powers of operands beyond float range, out-of-range and surrogate escapes, bad "
    "capacities/widths/directives) placed at a random line; statements nested 17-1000 levels deep (parentheses, sets, "
    "unary/binary operators, array capacities, unbalanced openers); chains of 3-300 definitions each depending on the next; "
    "and hostile file names (component counts 0-6, signed/huge/spaced/non-ASCII numerals, dotted / reserved / Unicode "
    "directory names). Outcome taxonomy at the API boundary: model | InvalidDefinitionError with path = offending file | "
    "anything else = violation. Non-trivial: mutated text differs from its seed and is not whitespace-only; distinct by "
    "text digest."
)
ASSUMPTIONS = [
    "mutants that could only exhaust memory in big-integer arithmetic are dropped and counted: a power whose estimated "
    "result exceeds ~4 Mbit (bits of the largest literal x its value ** number of left-nested powers), any exponent tower "
    "beyond 2**2**4, exponent literals whose value exceeds 1e30 used in a power",
    "text is valid UTF-8 (non-text file content is outside 'text offered as a definition'); length <= 4 kB (12 kB for deep nesting)",
]
MIN_MONITORS = {"outcome": 30000, "outcome-error-with-path": 15000, "outcome-model": 2000, "file-name": 1200, "corner": 2000, "deep-nesting": 800, "chain": 100}
THOROUGH_MIN_SCALE = 10


def plan(tier):
    if tier == "quick":
        return {"shards": 16, "params": {"n": 40000, "n_names": 2400, "n_chains": 160, "time_cap_s": 300}}
    return {"shards": 16, "params": {"n": 1000000, "n_names": 50000, "n_chains": 3200, "time_cap_s": 2400}, "hard_timeout_s": 4000}


CULPRIT_RE = re.compile(r"issues/new\?title=(\S+)")


INT_STR_LIMIT = "for integer string conversion"


def culprit_of(ex) -> str:
    """Names the mechanism of an escaped InternalError (the key of known findings)."""
    text = getattr(ex, "text", None) or str(ex)
    if INT_STR_LIMIT in text or INT_STR_LIMIT in urllib.parse.unquote(text):
        # the wrapper that adds the path quotes the cause only inside the issue-tracker URL (percent-encoded)
        return "int-str-digits-limit"
    m = CULPRIT_RE.search(text)
    if m:
        t = urllib.parse.unquote(m.group(1))
        return re.split(r"[\(:]", t)[0] or "unknown"
    m = re.match(r"\s*([A-Za-z_][A-Za-z0-9_.]*(?:Error|Exception|Exit|Interrupt))\b", text)
    if m:
        return m.group(1)
    cause = getattr(ex, "__cause__", None)
    orig = getattr(cause, "original_class", None)
    if orig is not None:
        return getattr(orig, "__name__", "unknown")
    return type(cause).__name__ if cause is not None else "unknown"


def classify(ctx, pydsdl, fn, main_path, allowed_paths, what, case, referrer=None):
    """Runs fn() at the API boundary and classifies the outcome. Returns the class string."""
    ctx.mon("outcome")
    try:
        fn()
        ctx.mon("outcome-model")
        return "model"
    except pydsdl.InvalidDefinitionError as ex:
        p = ex.path
        if p is None:
            ctx.violation("C13/error-without-path", "%s: %s carries no path: %r" % (what, type(ex).__name__, ex), case)
            return "error-no-path"
        try:
            rp = type(main_path)(p).resolve()
        except Exception:  # noqa
            rp = p
        if main_path is not None and rp != main_path and referrer is not None and rp == referrer[0] and referrer[1]():
            # the offered text is a valid definition on its own (a service, a deprecated type, ...) that the valid referring
            # definition cannot use: the fault then genuinely lies in the referrer
            ctx.mon("outcome-error-with-path")
            return "error-in-referrer:" + type(ex).__name__
        if main_path is not None and rp != main_path:
            if not (type(ex).__name__ == "DataTypeNameCollisionError" and rp in allowed_paths):
                ctx.violation("C13/error-path-wrong", "%s: %s names %s, offending file is %s" % (what, type(ex).__name__, p, main_path), case)
                return "error-wrong-path"
        ctx.mon("outcome-error-with-path")
        return "error:" + type(ex).__name__
    except pydsdl.InternalError as ex:
        c = culprit_of(ex)
        text = str(ex)
        text = text if len(text) <= 900 else text[:300] + " [...] " + text[-500:]   # the cause sits at the end of the text
        ctx.violation("C13/internal-error/" + c, "%s: InternalError escaped: %s" % (what, text), case)
        return "internal"
    except CaseTimeout:
        raise
    except (MemoryError, RecursionError) as ex:
        ctx.violation("C13/foreign/" + type(ex).__name__, "%s: %r escaped" % (what, ex), case)
        return "foreign"
    except Exception as ex:  # noqa
        ctx.violation("C13/foreign/" + type(ex).__name__, "%s: %s escaped: %s" % (what, type(ex).__name__, str(ex)[:300]), case)
        return "foreign"


def make_seed(rng):
    deps = GT.gen_universe(rng, n_defs=rng.choice([1, 2]), small=True, text_ok=True, max_fields=3)
    desc = GD.gen_definition(rng, deps)
    from pv.props.c03 import fix_docs

    fix_docs(desc, rng)
    pol = GD.Policy(random.Random(rng.random()), plain=rng.random() < 0.5)
    text, _ = GD.render(desc, pol)
    return deps, text


def run_text(ctx, pydsdl, deps, text, kind, workdir, api, as_dependency=False):
    base = workdir / "c13"
    shutil.rmtree(base, ignore_errors=True)
    GT.write_universe(deps, base)
    root = base / GT.ROOT
    root.mkdir(parents=True, exist_ok=True)
    (root / "Svc.1.0.dsdl").write_text("uint8 a\n@sealed\n---\nuint8 b\n@extent 64\n")  # a service that mutants may refer to
    if as_dependency:
        # the offered text is a definition that is first reached as a dependency of a valid definition sorting before it
        main = root / "Zmain.1.0.dsdl"
        (root / "Auser.1.0.dsdl").write_text("uint8 before\n%s.Zmain.1.0 dep\n@extent 80000\n" % GT.ROOT)
        text = text.replace(GT.ROOT + ".Main.1.0", GT.ROOT + ".Zmain.1.0")
    else:
        main = root / "Main.1.0.dsdl"
    main.write_bytes(text.encode("utf-8", "surrogateescape" if kind == "bytes" else "strict"))  # kind 'bytes': lone surrogates stand for raw bytes 0x80-0xFF
    case = {"deps": deps, "text": text, "kind": kind, "api": api, "as_dependency": as_dependency}
    allowed = {(base / GT.def_path(d)).resolve() for d in deps}
    try:
        if as_dependency and api == "read_files":
            fn = lambda: pydsdl.read_files([root / "Auser.1.0.dsdl"], [root])  # noqa
        elif api == "read_files":
            fn = lambda: pydsdl.read_files([main], [root])  # noqa
        else:
            fn = lambda: pydsdl.read_namespace(root, [])  # noqa
        referrer = None
        if as_dependency:
            def valid_alone():
                try:
                    pydsdl.read_files([main], [root])
                    return True
                except Exception:  # noqa
                    return False

            referrer = ((root / "Auser.1.0.dsdl").resolve(), valid_alone)
        return classify(ctx, pydsdl, fn, main.resolve(), allowed, kind, case, referrer)
    finally:
        shutil.rmtree(base, ignore_errors=True)


_STEP_METER = []


def run_chain(ctx, pydsdl, case, workdir):
    """
    A chain of definitions each holding `fanout` fields of the next one (fanout 2-3: the number of paths to the leaf doubles /
    triples per level, the number of definitions and statements does not).  Reading must end with a model or an
    InvalidDefinitionError within a number of logical steps (PY_START + JUMP events in pydsdl code) polynomial in the number n of
    definitions; measured on the unchanged tree: < 2500 n for nested readers and about 30 n**2 for a long chain read dependencies
    first (every reference is looked up among all n definitions); the budget allows 30000 n + 100 n**2.
    """
    from pv.core import repo_root
    from pv.mon.symbolic import BudgetExceeded, SymbolicMonitor

    base = workdir / "c13c"
    shutil.rmtree(base, ignore_errors=True)
    root = base / "chain"
    root.mkdir(parents=True)
    n = case["chain"]
    fan = case.get("fanout", 1)
    nsdepth = case.get("nsdepth", 0)
    d = root.joinpath(*(["n"] * nsdepth))
    d.mkdir(parents=True, exist_ok=True)
    prefix = ".".join(["chain"] + ["n"] * nsdepth)
    # order 'users-first': T000 uses T001 ... (every level is a nested reader); 'deps-first': T<n-1> uses T<n-2> ... so that every
    # dependency sorts before its user and is cached when the user is read (no nesting of readers, only of types)
    deps_first = case.get("order") == "deps-first"
    # longest representation per level, so that a level may be delimited (@extent) instead of sealed: leaf first
    mode = case.get("mode", "sealed")
    is_delimited = lambda k: mode == "delimited" or (mode == "mixed" and k % 2 == 0)  # noqa
    size = {}
    prev = None
    for i in (range(n) if deps_first else range(n - 1, -1, -1)):
        if prev is None:
            size[i] = 8
        else:
            element = size[prev] + (32 if is_delimited(prev) else 0)
            size[i] = fan * ((8 + 2 * element) if case["array"] else element)
        prev = i
    for i in range(n):
        j = i - 1 if deps_first else i + 1
        last = i == 0 if deps_first else i + 1 >= n
        nxt = "uint8 leaf\n" if last else "".join("%s.T%04d.1.0%s next%d\n" % (prefix, j, "[<=2]" if case["array"] else "", k) for k in range(fan))
        (d / ("T%04d.1.0.dsdl" % i)).write_text(nxt + ("@extent %d\n" % size[i] if is_delimited(i) else "@sealed\n"))
    first = d / ("T%04d.1.0.dsdl" % (n - 1 if deps_first else 0))
    ctx.mon("chain")
    if not _STEP_METER:
        _STEP_METER.append(SymbolicMonitor(pydsdl, repo_root() / "pydsdl"))
    mon = _STEP_METER[0]
    mon.reset()
    mon.step_budget = 30000 * n + 100 * n * n + 400000
    mon.steps_on()
    try:
        if case["api"] == "read_files":
            fn = lambda: pydsdl.read_files([first], [root])  # noqa
        else:
            fn = lambda: pydsdl.read_namespace(root, [])  # noqa
        return classify(ctx, pydsdl, fn, None, set(), "dependency chain of depth %d, fan-out %d, namespace depth %d, %s" % (n, fan, nsdepth, case.get("order", "users-first")), case)
    except BudgetExceeded:
        ctx.violation("C13/non-termination/nesting", "reading a chain of %d definitions with %d fields of the next type each did not end within %d logical steps" % (
            n, fan, mon.step_budget), case)
        return "budget"
    finally:
        mon.steps_off()
        shutil.rmtree(base, ignore_errors=True)


def run_shard(ctx):
    import hashlib

    pydsdl = import_pydsdl()
    from pv.mon.conserve import Conserve
    from pv.mon.const import ConstMonitor

    always_on = [Conserve(pydsdl).install(), ConstMonitor(pydsdl).install()]  # silent side monitors (C03 / C12 mechanisms)
    rng = ctx.rng
    n = ctx.share(ctx.params["n"])
    deps, seed_text = make_seed(rng)
    i = 0
    while i < n and not ctx.out_of_time():
        if i % 25 == 0:
            deps, seed_text = make_seed(rng)
        r = rng.random()
        if r < 0.45:
            text, ops = GF.mutate_tokens(rng, seed_text, rng.choice([1, 1, 2, 3]))
            kind = "tokens"
        elif r < 0.65:
            text = GF.mutate_chars(rng, seed_text, rng.choice([1, 2, 4]))
            kind = "chars"
        elif r < 0.70:
            text = GF.random_noise(rng, rng.randrange(0, 200))
            kind = "noise"
        elif r < 0.72:
            # file content that is not UTF-8 text: raw bytes 0x80-0xFF (written through surrogateescape) inside comments, string
            # literals, identifiers or anywhere; overlong / truncated sequences; a file of random bytes
            chars = list(seed_text if rng.random() < 0.8 else "")
            for _ in range(rng.choice([1, 1, 2, 5, 40])):
                chars.insert(rng.randrange(len(chars) + 1), chr(0xDC00 + rng.choice([0x80, 0xA0, 0xC0, 0xC3, 0xE9, 0xED, 0xF5, 0xFE, 0xFF, rng.randrange(0x80, 0x100)])))
            text = "".join(chars)
            kind = "bytes"
        elif r < 0.76:
            lines = seed_text.replace("\r\n", "\n").split("\n") if rng.random() < 0.5 else ["@sealed"]
            lines.insert(rng.randrange(len(lines) + 1), GF.deep_statement(rng))
            text = "\n".join(lines)
            kind = "deep"
            ctx.mon("deep-nesting")
        else:
            lines = seed_text.replace("\r\n", "\n").split("\n") if rng.random() < 0.7 else ["@sealed"]
            r2 = rng.random()
            if r2 < 0.7:
                stmt = rng.choice(GF.CORNER_STATEMENTS)
            elif r2 < 0.9:
                stmt = GF.string_escape_statement(rng)
            else:
                # the attribute operator applied to an existing type with names that exist there - but are not constants: its fields,
                # the request / response pseudo-fields of a service, names of the intrinsics spelled slightly off
                d = rng.choice(deps)
                names = [f["name"] for f in d["fields"] if "name" in f] + [c["name"] for c in d.get("consts", [])] + ["_extent_", "_bit_length_", "_offset_", "extent", "__class__", "fields"]
                tgt = rng.choice(["%s.%d.%d.%s" % (d["name"], d["ver"][0], d["ver"][1], rng.choice(names)), "pvns.Svc.1.0." + rng.choice(["request", "response", "a", "b", "Request", "_extent_"]),
                                  "pvns.Svc.1.0.request.a", "pvns.Svc.1.0.request._extent_"])
                stmt = rng.choice(["@print %s", "uint8 N = %s", "@assert %s == 1", "uint8[%s] arr", "@print {%s}", "@print %s._extent_", "bool B = %s"]) % tgt
            lines.insert(rng.randrange(len(lines) + 1), stmt)
            text = "\n".join(lines)
            if rng.random() < 0.3:
                text, _ = GF.mutate_tokens(rng, text, 1)
            kind = "corner"
            ctx.mon("corner")
        if len(text) > (12000 if kind == "deep" else 4000):
            text = text[:4000]
        if GF.risky(text):
            ctx.cls("dropped-resource-risk")
            continue
        nest = GF.max_nesting(text)
        ctx.cls("nesting-%s" % ("<=16" if nest <= 16 else "17..40" if nest <= 40 else "41..100" if nest <= 100 else ">100"))
        try:
            text.encode("utf-8", "surrogateescape" if kind == "bytes" else "strict")
        except UnicodeEncodeError:
            ctx.cls("dropped-not-utf8")
            continue
        i += 1
        api = "read_files" if rng.random() < 0.2 else "read_namespace"
        for m in always_on:
            m.bind(ctx, {"text": text, "kind": kind, "deps": deps})
        as_dep = rng.random() < 0.3
        try:
            with ctx.watchdog(25):
                out = run_text(ctx, pydsdl, deps, text, kind, ctx.tmp, api, as_dep)
        except CaseTimeout:
            ctx.inconclusive_case("watchdog", {"text": text})
            out = "timeout"
        nontrivial = text != seed_text and text.strip() != ""
        ctx.case(hashlib.sha1(text.encode("utf-8", "surrogateescape")).hexdigest() + str(as_dep), nontrivial, classes=["kind-" + kind, "outcome-" + out.split(":")[0], "as-dependency" if as_dep else "as-target"] +
                 (["err-" + out.split(":")[1]] if out.startswith("error:") else []),
                 sample={"kind": kind, "text": text[:300], "outcome": out} if i <= 3 else None)
    # chains of dependencies far deeper than any real namespace (every level is a recursive reader instance)
    for j in range(ctx.share(ctx.params["n_chains"])):
        if ctx.out_of_time():
            break
        depth = rng.choice([3, 10, 30, 60, 80, 100, 150, 300, rng.randrange(40, 90), rng.randrange(40, 90)])
        case = {"chain": depth, "api": rng.choice(["read_namespace", "read_files"]), "array": rng.random() < 0.3, "fanout": rng.choice([1, 1, 2, 3]),
                "nsdepth": rng.choice([0, 0, 1, 5, 30, 60]), "order": rng.choice(["users-first", "users-first", "deps-first"]),
                "mode": rng.choice(["sealed", "sealed", "delimited", "mixed"])}
        if case["order"] == "deps-first" and rng.random() < 0.3:
            case["chain"] = depth = rng.choice([900, 1100])
        try:
            with ctx.watchdog(120):
                out = run_chain(ctx, pydsdl, case, ctx.tmp)
        except CaseTimeout:
            ctx.inconclusive_case("watchdog", case)
            out = "timeout"
        ctx.case(("chain", depth, case["api"], case["array"], case["fanout"], case["nsdepth"], case["order"], case["mode"]), True, classes=["kind-chain", "chain-depth-%s" % (depth if depth in (3, 10, 30, 60, 80, 100, 150, 300, 900, 1100) else "40..89"), "chain-fanout-%d" % case["fanout"], "chain-nsdepth-%d" % case["nsdepth"], "chain-" + case["order"], "chain-" + case["mode"], "chain-outcome-" + out.split(":")[0]])
    if ctx.shard == 0:
        degenerate_targets(ctx, pydsdl)
    # hostile file names
    for j in range(ctx.share(ctx.params["n_names"])):
        if ctx.out_of_time():
            break
        base = ctx.tmp / "c13n"
        shutil.rmtree(base, ignore_errors=True)
        root = base / "nsroot"
        root.mkdir(parents=True)
        (root / "Ok.1.0.dsdl").write_text("@sealed\n")
        parts, cls = GF.gen_file_name(rng)
        p = root.joinpath(*parts)
        try:
            p.parent.mkdir(parents=True, exist_ok=True)
            if rng.random() < 0.15:
                # the directory entry is a symbolic link: to a definition of this root, to a file or directory elsewhere, to nothing
                (base / "elsewhere" / "deep").mkdir(parents=True, exist_ok=True)
                (base / "elsewhere" / "Ext.1.0.dsdl").write_text("uint8 e\n@sealed\n")
                (base / "elsewhere" / "notes.txt").write_text("not a definition {{{\n")
                tgt = rng.choice([root / "Ok.1.0.dsdl", base / "elsewhere" / "Ext.1.0.dsdl", base / "elsewhere" / "notes.txt", base / "elsewhere" / "deep",
                                  base / "elsewhere" / "missing.1.0.dsdl", p, root,
                                  # files that exist, pass for regular files, and cannot be read (EIO / EINVAL / EACCES for any user)
                                  Path("/proc/self/mem"), Path("/proc/self/pagemap")])
                p.symlink_to(tgt if (rng.random() < 0.5 or str(tgt).startswith("/proc")) else os.path.relpath(str(tgt), str(p.parent)))
                cls = "symlink-" + ("self" if tgt == p else "root" if tgt == root else "unreadable" if str(tgt).startswith("/proc") else tgt.name.replace(".", "_"))
            else:
                p.write_text(rng.choice(["@sealed\n", "@sealed\n", "uint8 x\n@sealed\n", "uint8 x\n@extent 64\n"]))
        except (OSError, ValueError):
            ctx.cls("name-not-creatable")
            shutil.rmtree(base, ignore_errors=True)
            continue
        ctx.mon("file-name")
        case = {"file_name": parts}
        try:
            with ctx.watchdog(60):
                if rng.random() < 0.25:
                    out = classify(ctx, pydsdl, lambda: pydsdl.read_files([p], [root]), None, set(), "file name %r" % (parts,), case)
                else:
                    out = classify(ctx, pydsdl, lambda: pydsdl.read_namespace(root, []), None, set(), "file name %r" % (parts,), case)
        except CaseTimeout:
            ctx.inconclusive_case("watchdog", case)
            out = "timeout"
        finally:
            shutil.rmtree(base, ignore_errors=True)
        ctx.case(("name", tuple(parts)), True, classes=["name-" + cls, "name-outcome-" + out.split(":")[0]])


def degenerate_targets(ctx, pydsdl):
    """read_files given something that is no path to a file at all: still an InvalidDefinitionError (or the model), nothing else."""
    base = ctx.tmp / "c13d"
    shutil.rmtree(base, ignore_errors=True)
    root = base / "nsroot"
    (root / "sub").mkdir(parents=True)
    (root / "Ok.1.0.dsdl").write_text("@sealed\n")
    old = os.getcwd()
    try:
        os.chdir(base)
        (root / "loop").symlink_to("loop")
        (base / "loop0").symlink_to("loop0")
        (root / "ping").symlink_to("pong")
        (root / "pong").symlink_to("ping")
        long = "a" * 300
        for tgt in ["", ".", "..", "/", "nsroot", "nsroot/", "nsroot/sub", "nsroot/.", "nsroot/..", "nsroot/Ok.1.0.dsdl/", "nsroot/Ok.1.0.dsdl/.", "./", "//",
                    "nsroot/loop/Foo.1.0.dsdl", "nsroot/ping/Foo.1.0.dsdl", "nsroot/loop", "nsroot/%s.1.0.dsdl" % long, "nsroot/%s/Foo.1.0.dsdl" % long,
                    "nsroot/sub/" + "/".join(["d" * 200] * 30) + "/Foo.1.0.dsdl", "nsroot/Foo.1.0.dsdl\x00", "nsroot/\udc80.1.0.dsdl",
                    # the same defects in a DIRECTORY component of the target, and in its first component (which read_files takes for the root
                    # when it is given no roots)
                    "loop0/Foo.1.0.dsdl", "%s/Foo.1.0.dsdl" % long, "nsroot/x\x00/Foo.1.0.dsdl", "nsroot/x\x00y/Ok.1.0.dsdl", str(root) + "/x\x00y/Foo.1.0.dsdl",
                    "nsroot/\ud800/Foo.1.0.dsdl", "n\x00s/Foo.1.0.dsdl", "\udc80/Foo.1.0.dsdl", "nsroot/sub/\x00/../Ok.1.0.dsdl"]:
            for roots in (["nsroot"], [], [root], ["."]):
                ctx.mon("file-name")
                case = {"degenerate_target": tgt, "roots": [str(r) for r in roots]}
                out = classify(ctx, pydsdl, lambda: pydsdl.read_files([tgt], roots), None, set(), "read_files target %r, roots %r" % (tgt, roots), case)
                ctx.case(("degenerate", tgt, str(roots)), True, classes=["name-degenerate-target", "name-outcome-" + out.split(":")[0]])
    finally:
        os.chdir(old)
        shutil.rmtree(base, ignore_errors=True)


def replay(ctx, case):
    from pv.props.c02 import fix_universe

    pydsdl = import_pydsdl()
    if "degenerate_target" in case:
        degenerate_targets(ctx, pydsdl)
        return
    if "chain" in case:
        print(run_chain(ctx, pydsdl, case, ctx.tmp))
    elif "text" in case:
        print(run_text(ctx, pydsdl, fix_universe(case["deps"]), case["text"], case["kind"], ctx.tmp, case.get("api", "read_namespace"), case.get("as_dependency", False)))
    else:
        base = ctx.tmp / "c13n"
        root = base / "nsroot"
        root.mkdir(parents=True)
        (root / "Ok.1.0.dsdl").write_text("@sealed\n")
        p = root.joinpath(*case["file_name"])
        p.parent.mkdir(parents=True, exist_ok=True)
        p.write_text("@sealed\n")
        print(classify(ctx, pydsdl, lambda: pydsdl.read_namespace(root, []), None, set(), "file name", case))
