"""
Sub-process probe for C10: runs the same read configurations under a given PYTHONHASHSEED with injected perturbations
(directory enumeration order, argument spelling/order/duplication) and writes one canonical signature per configuration.
Usage: python -m pv.props.c10_probe <spec.json> <out.json>
"""
from __future__ import annotations

import json
import os
import pathlib
import random
import sys


def install_rglob_shuffle(state):
    orig = pathlib.Path.rglob

    def rglob(self, pattern, **kw):
        items = list(orig(self, pattern, **kw))
        rng = state.get("rng")
        if rng is not None:
            rng.shuffle(items)
            state["calls"] = state.get("calls", 0) + 1
        return iter(items)

    pathlib.Path.rglob = rglob


def sig_type(pydsdl, t, base):
    def pv_id(c):
        for k in c.constants:
            if k.name == "PV_ID":
                return int(k.value.native_value)
        return None

    def el(x):
        while isinstance(x, pydsdl.ArrayType):
            x = x.element_type
        return x

    body = t.request_type if isinstance(t, pydsdl.ServiceType) else t
    nested = []
    for f in body.fields:
        e = el(f.data_type)
        if isinstance(e, pydsdl.CompositeType):
            nested.append([f.name, pv_id(e), os.path.relpath(str(e.source_file_path.resolve()), base)])
    return [t.full_name, t.version.major, t.version.minor, type(t).__name__, os.path.relpath(str(t.source_file_path.resolve()), base),
            os.path.relpath(str(t.source_file_path_to_root.resolve()), base), t.fixed_port_id, pv_id(body), [str(a) for a in body.attributes], nested]


def spell(path, how, base, rng):
    """One of several equivalent spellings of a directory argument."""
    p = pathlib.Path(path)
    if how == "abs-path":
        return p
    if how == "abs-str-slash":
        return str(p) + "/"
    if how == "relative":
        return os.path.relpath(str(p), os.getcwd())
    if how == "relative-path-obj":
        return pathlib.Path(os.path.relpath(str(p), os.getcwd()))
    if how == "dotdot":
        parts = p.relative_to(base).parts
        if not parts:
            return p
        return str(pathlib.Path(base) / parts[0] / ".." / pathlib.Path(*parts))
    if how == "symlink":
        links = pathlib.Path(base) / "_links"
        links.mkdir(exist_ok=True)
        import hashlib

        ln = links / ("alias_%s_%s" % (p.name, hashlib.md5(str(p).encode()).hexdigest()[:12]))  # one alias per directory, never shared
        if not ln.exists():
            try:
                ln.symlink_to(p, target_is_directory=True)
            except FileExistsError:
                pass
        return ln
    raise ValueError(how)


def wrap(seq, rng, forms):
    """The same directory / file arguments in another container form the signature admits (a single path or any iterable)."""
    seq = list(seq)
    form = rng.choice(["list", "tuple", "iter", "generator", "map", "set", "dict-keys", "single"])
    if form == "single" and len(seq) != 1:
        form = "tuple"
    if form == "set":
        try:
            hash(tuple(seq))
        except TypeError:
            form = "tuple"
    forms[form] = forms.get(form, 0) + 1
    if form == "list":
        return seq
    if form == "tuple":
        return tuple(seq)
    if form == "iter":
        return iter(seq)
    if form == "generator":
        return (x for x in seq)
    if form == "map":
        return map(lambda x: x, seq)
    if form == "set":
        return set(seq)
    if form == "dict-keys":
        return dict.fromkeys(seq).keys()
    return seq[0]


def main():
    spec = json.load(open(sys.argv[1]))
    sys.path.insert(0, spec["repo"])
    import pydsdl

    assert pydsdl.__file__.startswith(spec["repo"]), pydsdl.__file__
    state = {}
    install_rglob_shuffle(state)
    out = {"hashseed": os.environ.get("PYTHONHASHSEED"), "results": {}, "rglob_calls": 0, "forms": {}}
    forms = out["forms"]
    for tree in spec["trees"]:
        base = tree["base"]
        os.chdir(base)
        for cfg in tree["configs"]:
            rng = random.Random(cfg["perturb_seed"])
            state["rng"] = random.Random(cfg["perturb_seed"]) if cfg["shuffle"] else None
            how = cfg["spelling"]
            root = spell(tree["root"], how, base, rng)
            lookups = [spell(x, rng.choice([how, "abs-path"]), base, rng) for x in tree["lookups"]]
            if cfg["reorder"]:
                rng.shuffle(lookups)
                if lookups and rng.random() < 0.5:
                    lookups.append(lookups[0])
                if rng.random() < 0.3:
                    lookups.append(root)
            key = "%s|%s" % (tree["id"], cfg["id"])
            try:
                if cfg["call"] == "read_files_dirs":
                    extra = [spell(x, "abs-path", base, rng) for x in cfg.get("extra_lookups", [])]
                    d, tr = pydsdl.read_files(cfg["files"], [root], lookups + extra)
                    out["results"][key] = ["ok", [sig_type(pydsdl, t, base) for t in d], [sig_type(pydsdl, t, base) for t in tr]]
                elif cfg["call"] == "read_namespace":
                    kw = {}
                    if "allow_collision" in cfg:
                        kw["allow_root_namespace_name_collision"] = cfg["allow_collision"]
                    extra = [spell(x, "abs-path", base, rng) for x in cfg.get("extra_lookups", [])]
                    res = pydsdl.read_namespace(root, wrap(lookups + extra, rng, forms) if cfg["reorder"] else lookups + extra, **kw)
                    out["results"][key] = ["ok", [sig_type(pydsdl, t, base) for t in res]]
                else:
                    files = [spell(f, "abs-path" if how in ("symlink", "dotdot", "abs-str-slash") else how, base, rng) for f in cfg["files"]]
                    if cfg["reorder"]:
                        rng.shuffle(files)
                        if rng.random() < 0.4:
                            files.append(files[0])
                    # targets and roots are spelled consistently (mixed relative/absolute designations are C15's subject)
                    roots = [root] + [spell(x, how, base, rng) for x in tree["lookups"]]
                    if cfg["reorder"]:
                        rng.shuffle(roots)
                    if cfg["reorder"]:
                        files, roots = wrap(files, rng, forms), wrap(roots, rng, forms)
                    d, tr = pydsdl.read_files(files, roots)
                    out["results"][key] = ["ok", [sig_type(pydsdl, t, base) for t in d], [sig_type(pydsdl, t, base) for t in tr]]
            except pydsdl.InvalidDefinitionError as ex:
                out["results"][key] = ["rejected", type(ex).__name__]
            except Exception as ex:  # noqa
                out["results"][key] = ["foreign", "%s: %s" % (type(ex).__name__, str(ex)[:200])]
    out["rglob_calls"] = state.get("calls", 0)
    json.dump(out, open(sys.argv[2], "w"))


if __name__ == "__main__":
    main()
