"""C04 - constant expressions evaluate exactly, with the Specification's precedence (R-expr reference monitor)."""
from __future__ import annotations

import random
import shutil
import unicodedata
from fractions import Fraction

from pv.core import CaseTimeout, import_pydsdl
from pv.gen import expr as GE
from pv.gen.defs import O, Policy
from pv.ref import expr as RE

TITLE = "constant expression evaluation"
RULE = (
    "random expression trees (depth <=5) over integer literals in bases 2/8/10/16 with digit separators, reals in "
    "point/exponent notation, strings with escapes, booleans, set literals, constants as identifiers, unary + - !, all "
    "binary operators, attributes .min/.max/.count; rendered with minimal parentheses by the harness's own precedence "
    "table and again with redundant parentheses and random inter-token blanks; the value object handed to the directive "
    "handler (and the @print text) is compared with the exact reference value; trees with one injected undefined "
    "sub-expression (16 error classes) must be rejected with InvalidDefinitionError. Non-trivial: >=2 operator "
    "precedence levels or a set operand; distinct by tree structure."
)
ASSUMPTIONS = [
    "R-expr (pv/ref/expr.py) is the trusted evaluator; results the property text does not pin (sign of % with a negative "
    "operand, bitwise operators on negative integers, 0**0, non-integer exponents, min/max of singleton non-rational sets) "
    "are not compared",
    "exponents are small integers (at most two ** per expression) so that even a mis-grouped tower stays bounded",
]
MIN_MONITORS = {"value": 30000, "print-text": 30000, "redundant-parens": 12000, "expected-error": 2500, "in-type-position": 900, "operand-order": 3000}
THOROUGH_MIN_SCALE = 8


def plan(tier):
    if tier == "quick":
        return {"shards": 16, "params": {"n_valid": 48000, "n_error": 4800, "batch": 32, "time_cap_s": 240}}
    return {"shards": 16, "params": {"n_valid": 800000, "n_error": 80000, "batch": 40, "time_cap_s": 1800}, "hard_timeout_s": 3600}


def native(pydsdl, v, in_set=False):
    if isinstance(v, pydsdl.Boolean):
        return ("b", v.native_value)
    if isinstance(v, pydsdl.Rational):
        return ("r", Fraction(v.native_value))
    if isinstance(v, pydsdl.String):
        # which of several canonically equivalent spellings a set keeps is not pinned; as an element a string stands for its NFC form
        return ("s", unicodedata.normalize("NFC", v.native_value) if in_set else v.native_value)
    if isinstance(v, pydsdl.Set):
        return ("set", frozenset(native(pydsdl, e, True) for e in v))
    return ("other", repr(v))


def show(v):
    if v[0] == "set":
        return "{" + ", ".join(sorted(show(e) for e in v[1])) + "}"
    return "%s:%r" % (v[0], str(v[1]) if v[0] == "r" else v[1])


def expected_print_text(v):
    """str() of the pydsdl value as delivered to the print handler."""
    if v[0] == "b":
        return "true" if v[1] else "false"
    if v[0] == "r":
        return str(v[1])
    if v[0] == "s":
        return repr(v[1])
    return None  # sets: element order is checked separately


HEADER = "".join("%s %s = %s\n" % (t, n, i) for n, t, i, _v in GE.ENV_DECLS)
HEADER_LINES = HEADER.count("\n")


class Recorder:
    """Hook on the real DataTypeBuilder.on_directive: records the value object of every @print."""

    def __init__(self, pydsdl):
        self.dtb = __import__("pydsdl._data_type_builder", fromlist=["x"]).DataTypeBuilder
        self.orig = self.dtb.__dict__["on_directive"]
        self.seen = []
        rec = self

        def on_directive(self_, line_number, directive_name, associated_expression_value):
            if directive_name == "print":
                rec.seen.append((line_number, associated_expression_value))
            return rec.orig(self_, line_number, directive_name, associated_expression_value)

        self.dtb.on_directive = on_directive


def read_exprs(pydsdl, rec, workdir, texts):
    """One definition with one @print per expression. Returns (values by index, printed by index) or raises."""
    d = workdir / "c04" / "ens"
    shutil.rmtree(workdir / "c04", ignore_errors=True)
    d.mkdir(parents=True)
    body = HEADER + "".join("@print %s\n" % t for t in texts) + "@sealed\n"
    (d / "E.1.0.dsdl").write_text(body, encoding="utf-8")
    (d / "Dep.1.0.dsdl").write_text(GE.DEP_TEXT, encoding="utf-8")
    rec.seen.clear()
    printed = []
    try:
        pydsdl.read_namespace(d, [], print_output_handler=lambda p, l, t: printed.append((l, t)))
    finally:
        shutil.rmtree(workdir / "c04", ignore_errors=True)
    vals = {ln - HEADER_LINES - 1: v for ln, v in rec.seen}
    prs = {ln - HEADER_LINES - 1: t for ln, t in printed}
    return vals, prs


def gen_valid(rng):
    """A tree with a defined (or unspecified) reference value within the size bounds. Returns (tree, ref)."""
    for _ in range(50):
        t = GE.gen_tree(rng, rng.choice([1, 2, 2, 3, 3, 4, 5]), "any", [2])
        try:
            return t, ("value", RE.evaluate(t, GE.ENV))
        except RE.Unspecified as ex:
            return t, ("unspecified", str(ex))
        except (RE.Undefined, RE.TooBig):
            continue
    return ("int", 1), ("value", ("r", Fraction(1)))


def judge(ctx, pydsdl, tree, text, ref, got_val, got_print, exc, case):
    if ref[0] == "value":
        ctx.mon("value")
        if exc is not None:
            if isinstance(exc, pydsdl.InvalidDefinitionError):
                ctx.violation("C04/defined-rejected", "%s is defined (= %s) but was rejected: %r" % (text, show(ref[1]), exc), case)
            else:
                ctx.violation("C04/foreign-exception", "%s raised %r" % (text, exc), case)
            return
        if got_val is None:
            ctx.violation("C04/not-evaluated", "no value observed for %s" % text, case)
            return
        nv = native(pydsdl, got_val)
        if nv != ref[1]:
            ctx.violation("C04/value", "%s evaluates to %s, reference %s" % (text, show(nv), show(ref[1])), case)
            return
        ctx.mon("print-text")
        ept = expected_print_text(ref[1])
        if got_print is None or (ept is not None and got_print != ept):
            ctx.violation("C04/print-text", "%s printed %r, expected %r" % (text, got_print, ept), case)
        if ref[1][0] == "r" and not isinstance(got_val.native_value, Fraction):
            ctx.violation("C04/not-exact", "%s: native value is %r" % (text, type(got_val.native_value)), case)
    elif ref[0] == "unspecified":
        ctx.mon("unspecified")
        if exc is not None and not isinstance(exc, pydsdl.InvalidDefinitionError):
            ctx.violation("C04/foreign-exception", "%s raised %r" % (text, exc), case)
    else:  # undefined
        ctx.mon("expected-error")
        if exc is None:
            ctx.violation("C04/undefined-accepted", "%s is undefined (%s) but evaluated to %s" % (
                text, ref[1], show(native(pydsdl, got_val)) if got_val is not None else "?"), case)
        elif not isinstance(exc, pydsdl.InvalidDefinitionError):
            ctx.violation("C04/foreign-exception", "%s raised %r instead of InvalidDefinitionError" % (text, exc), case)


EQUAL_SPELLINGS = [("K", "\u212a"), (";", "\u037e"), ("`", "\u1fef"), ("\u03a9", "\u2126"), ("\u00e9", "e\u0301"), ("\u00c5", "\u212b"), ("\uac00", "\u1100\u1161"),
                   ("\u00c5", "A\u030a"), ("a", "a")]


def operand_order(ctx, pydsdl, rng, workdir):
    """
    Set literals are unordered and | & ^ are commutative: swapping the operands - here two spellings of one string (equal under
    canonical composition, which is how DSDL compares strings) - may change neither the outcome nor any text derived from the result.
    """
    def q(x):
        return "'%s'" % "".join(ch if (32 < ord(ch) < 127 and ch not in "'\\") else "\\u%04x" % ord(ch) for ch in x)

    a, b = rng.choice(EQUAL_SPELLINGS)
    if rng.random() < 0.5:
        a, b = b, a
    A, B = q(a), q(b)
    form = rng.choice(["{%s, %s}", "({%s} | {%s})", "({%s, 'zz'} & {%s, 'yy'})", "({%s, 'q'} ^ {'q', 'r'} ^ {%s, 'r'} | {%s})".replace("| {%s}", "| {'q'}"), "{{%s}, {%s}}", "{{%s, 'w'}, {'w', %s}}",
                       "({%s} | {'m'} | {%s})"])
    use = rng.choice(["@print E", "@print E.count", "uint8 X = E.min", "uint8 X = E.max", "@print E.min", "@assert E == E", "@print E == F"])
    if "{{" in form and ".m" in use:
        use = "@print E"
    e1, e2 = form % (A, B), form % (B, A)
    outs = []
    for e, f in ((e1, e2), (e2, e1)):
        body = use.replace("E", e).replace("F", f) + "\n@sealed\n"
        root = workdir / "c04o" / "ons"
        shutil.rmtree(workdir / "c04o", ignore_errors=True)
        root.mkdir(parents=True)
        (root / "O.1.0.dsdl").write_text(body, encoding="utf-8")
        prints = []
        try:
            pydsdl.read_namespace(root, [], print_output_handler=lambda p_, l_, t_: prints.append(t_))
            outs.append(("ok", prints, body))
        except pydsdl.InvalidDefinitionError as ex:
            outs.append((type(ex).__name__, prints, body))
        except Exception as ex:  # noqa
            outs.append(("foreign", prints, body))
            ctx.violation("C04/foreign-exception", "%r raised %r" % (body.split("\n")[0], ex), {"operand_order": [body, body]})
        finally:
            shutil.rmtree(workdir / "c04o", ignore_errors=True)
    ctx.mon("operand-order")
    ctx.case(("operand-order", a, b, form, use), True, classes=["operand-order"])
    if outs[0][:2] != outs[1][:2]:
        ctx.violation("C04/operand-order", "swapping the operands of a set literal / commutative set operator changes the result: %r -> %s %r, but %r -> %s %r" % (
            outs[0][2].split("\n")[0], outs[0][0], outs[0][1], outs[1][2].split("\n")[0], outs[1][0], outs[1][1]), {"operand_order": [outs[0][2], outs[1][2]]})


def run_batch(ctx, pydsdl, rec, workdir, items):
    """items: list of (tree, text, ref, kind). All expected to be accepted (value/unspecified)."""
    texts = [it[1] for it in items]
    try:
        vals, prs = read_exprs(pydsdl, rec, workdir, texts)
        for i, (tree, text, ref, kind) in enumerate(items):
            judge(ctx, pydsdl, tree, text, ref, vals.get(i), prs.get(i), None, {"tree": tree, "text": text, "kind": kind})
    except Exception as ex:  # noqa: find the culprit by reading one by one
        if not isinstance(ex, pydsdl.Error):
            ctx.cls("batch-foreign-exception")
        for tree, text, ref, kind in items:
            run_single(ctx, pydsdl, rec, workdir, tree, text, ref, kind)


def run_single(ctx, pydsdl, rec, workdir, tree, text, ref, kind):
    case = {"tree": tree, "text": text, "kind": kind}
    try:
        vals, prs = read_exprs(pydsdl, rec, workdir, [text])
        judge(ctx, pydsdl, tree, text, ref, vals.get(0), prs.get(0), None, case)
    except pydsdl.Error as ex:
        judge(ctx, pydsdl, tree, text, ref, None, None, ex, case)
    except Exception as ex:  # noqa
        judge(ctx, pydsdl, tree, text, ref, None, None, ex, case)


def in_type_position(ctx, pydsdl, rng, workdir):
    """Expressions as array capacity and @extent operand and constant initializer: observed through the model."""
    t, ref = None, None
    for _ in range(30):
        t = GE.gen_tree(rng, rng.choice([1, 2, 3]), "r", [1])
        try:
            v = RE.evaluate(t, GE.ENV)
        except (RE.Undefined, RE.Unspecified, RE.TooBig):
            continue
        if v[1].denominator == 1 and 1 <= v[1].numerator <= 1000:
            ref = int(v[1])
            break
    if ref is None:
        return
    pol = Policy(random.Random(rng.random()), plain=rng.random() < 0.3, crlf=False, final_newline=True, trailing=False, ws_blank_lines=False, extra_orphans=False)
    text = pol.join(GE.render(rng, t))
    d = workdir / "c04t" / "ens"
    shutil.rmtree(workdir / "c04t", ignore_errors=True)
    d.mkdir(parents=True)
    body = HEADER + "uint8[<=%s] a\nuint8[%s] b\nuint16 C = %s\n@extent 8 * (%s) + 160000\n" % (text, text, text, text)
    (d / "E.1.0.dsdl").write_text(body, encoding="utf-8")
    (d / "Dep.1.0.dsdl").write_text(GE.DEP_TEXT, encoding="utf-8")
    case = {"tree": t, "text": text, "kind": "type-position"}
    ctx.mon("in-type-position")
    try:
        m = [x for x in pydsdl.read_namespace(d, []) if x.short_name == "E"][0]
        got = (m.fields[0].data_type.capacity, m.fields[1].data_type.capacity, m.constants[-1].value.native_value, m.extent)
        exp = (ref, ref, Fraction(ref), 8 * ref + 160000)
        if got != exp:
            ctx.violation("C04/value-in-type-position", "%s as capacity/constant/extent gives %r expected %r" % (text, got, exp), case)
    except pydsdl.Error as ex:
        ctx.violation("C04/defined-rejected", "%s (= %d) rejected in type position: %r" % (text, ref, ex), case)
    finally:
        shutil.rmtree(workdir / "c04t", ignore_errors=True)


def run_shard(ctx):
    pydsdl = import_pydsdl()
    rec = Recorder(pydsdl)
    rng = ctx.rng
    nb = ctx.params["batch"]
    n_valid = ctx.share(ctx.params["n_valid"])
    done = 0
    while done < n_valid and not ctx.out_of_time():
        items = []
        for _ in range(nb // 2):
            tree, ref = gen_valid(rng)
            pol = Policy(random.Random(rng.random()), plain=rng.random() < 0.4, crlf=False, final_newline=True, trailing=False, ws_blank_lines=False, extra_orphans=False)
            text_min = pol.join(GE.render(rng, tree, 0.0))
            text_red = pol.join(GE.render(rng, tree, 0.35))
            items.append((tree, text_min, ref, "minimal"))
            items.append((tree, text_red, ref, "redundant"))
            ctx.mon("redundant-parens")
            lv = GE.op_levels(tree)
            nontrivial = len([x for x in lv if x != "set"]) >= 2 or "set" in lv
            ops = GE.operators(tree)
            ctx.case(RE.structure(tree), nontrivial, classes=["ref-" + ref[0]] + ["op " + o for o in set(ops)],
                     sample={"minimal": text_min, "redundant": text_red, "reference": show(ref[1]) if ref[0] == "value" else ref[1]} if done < 3 else None)
            done += 1
        try:
            with ctx.watchdog(120):
                run_batch(ctx, pydsdl, rec, ctx.tmp, items)
                if rng.random() < 0.5:
                    in_type_position(ctx, pydsdl, rng, ctx.tmp)
                for _ in range(3):
                    operand_order(ctx, pydsdl, rng, ctx.tmp)
        except CaseTimeout:
            ctx.inconclusive_case("watchdog", {"texts": [it[1] for it in items][:5]})
    for _ in range(ctx.share(ctx.params["n_error"])):
        if ctx.out_of_time():
            break
        base, _ref = gen_valid(rng)
        tree, ekind = GE.inject_error(rng, base)
        try:
            RE.evaluate(tree, GE.ENV)
            continue  # the injected sub-tree did not make it undefined (cannot happen for the listed classes)
        except RE.Undefined as ex:
            ref = ("undefined", "%s: %s" % (ekind, ex))
        except RE.Unspecified:
            # an unspecified sibling hides nothing: the injected part is undefined whatever the sibling yields
            ref = ("undefined", ekind)
        except RE.TooBig:
            continue
        pol = Policy(random.Random(rng.random()), plain=rng.random() < 0.5, crlf=False, final_newline=True, trailing=False, ws_blank_lines=False, extra_orphans=False)
        text = pol.join(GE.render(rng, tree, 0.1))
        try:
            with ctx.watchdog(60):
                run_single(ctx, pydsdl, rec, ctx.tmp, tree, text, ref, "error-" + ekind)
        except CaseTimeout:
            ctx.inconclusive_case("watchdog", {"text": text})
        ctx.case(("err", RE.structure(tree)), True, classes=["error-" + ekind])


def _tup(x):
    if isinstance(x, list):
        return tuple(_tup(i) for i in x)
    return x


def fix_tree(t):
    t = _tup(t)

    def conv(n):
        k = n[0]
        if k == "real":
            v = n[1]
            if isinstance(v, str):
                v = Fraction(v.replace("Fraction(", "").replace(")", "").replace(", ", "/")) if v.startswith("Fraction") else Fraction(v)
            return ("real", v)
        if k == "set":
            return ("set", tuple(conv(c) for c in n[1]))
        if k in ("un",):
            return ("un", n[1], conv(n[2]))
        if k == "bin":
            return ("bin", n[1], conv(n[2]), conv(n[3]))
        if k == "attr":
            return ("attr", conv(n[1]), n[2])
        if k == "paren":
            return ("paren", conv(n[1]))
        return n
    return conv(t)


def replay(ctx, case):
    pydsdl = import_pydsdl()
    if "operand_order" in case:
        for body in case["operand_order"]:
            root = ctx.tmp / "c04o" / "ons"
            shutil.rmtree(ctx.tmp / "c04o", ignore_errors=True)
            root.mkdir(parents=True)
            (root / "O.1.0.dsdl").write_text(body, encoding="utf-8")
            prints = []
            try:
                pydsdl.read_namespace(root, [], print_output_handler=lambda p_, l_, t_: prints.append(t_))
                print(repr(body), "-> ok", prints)
            except pydsdl.InvalidDefinitionError as ex:
                print(repr(body), "->", repr(ex), prints)
        return
    rec = Recorder(pydsdl)
    tree = fix_tree(case["tree"])
    try:
        ref = ("value", RE.evaluate(tree, GE.ENV))
    except RE.Unspecified as ex:
        ref = ("unspecified", str(ex))
    except RE.Undefined as ex:
        ref = ("undefined", str(ex))
    run_single(ctx, pydsdl, rec, ctx.tmp, tree, case["text"], ref, case.get("kind", ""))
