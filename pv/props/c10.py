"""C10 - namespace reading is complete, ordered and deterministic (R-order + injected perturbations in sub-processes)."""
from __future__ import annotations

import json
import os
import random
import shutil
import subprocess

from pv.core import PYTHON, child_env, import_pydsdl, repo_root
from pv.gen import ns as GN

TITLE = "namespace reading: complete, ordered, deterministic"
RULE = (
    "namespace trees (1-3 roots, nesting <=3, several versions per name, .dsdl and .uavcan, dependency graphs); each tree "
    "is read in separate sub-processes under different PYTHONHASHSEED values, with a seeded shuffling wrapper injected at "
    "pathlib.Path.rglob (directory enumeration order), and with the directory / file arguments spelled as absolute paths, "
    "strings with trailing slash, cwd-relative, x/../x, through symlinks, reordered, duplicated and with the root repeated "
    "among the lookups. read_namespace must equal R-order's list exactly (names, versions, files, order, nothing from "
    "lookup directories); read_files must give direct = requested, transitive = closure minus direct, both sorted and "
    "disjoint, with the same types; all perturbed runs must give byte-identical signatures; nested / same-name directory "
    "sets must be rejected exactly per the predicate; a directory in which two files define the same name and version (other extension and/or a port-ID prefix, same or different text) must be rejected or yield one composite per file. Non-trivial: >=3 definitions with >=2 versions of one name; distinct "
    "by (tree, perturbation tuple)."
)
ASSUMPTIONS = ["which of several simultaneous errors is reported may depend on order: only accept/reject and successful results are compared"]
MIN_MONITORS = {"config-result": 20000, "order-oracle": 2000, "determinism-compare": 15000, "read-files-oracle": 700, "directory-predicate": 800, "rglob-shuffles": 10000, "duplicate-files": 2000, "symlinked-definitions": 600}
THOROUGH_MIN_SCALE = 8

SPELLINGS = ["abs-path", "abs-str-slash", "relative", "relative-path-obj", "dotdot", "symlink"]


def plan(tier):
    if tier == "quick":
        return {"shards": 16, "params": {"n": 480, "n_dup": 1600, "hashseeds": 4, "shuffles": 3, "spellings": 4, "time_cap_s": 400}}
    return {"shards": 16, "params": {"n": 4000, "n_dup": 16000, "hashseeds": 12, "shuffles": 5, "spellings": 6, "time_cap_s": 2400}, "hard_timeout_s": 4000}


def expected_sig_order(ns, indices, paths, base):
    return [[GN.full_name(ns, ns["defs"][i]), ns["defs"][i]["ver"][0], ns["defs"][i]["ver"][1], os.path.relpath(str(paths[i].resolve()), base)]
            for i in GN.expected_order(ns, indices)]


def brief(sig_list):
    return [[s[0], s[1], s[2], s[4]] for s in sig_list]


def run_shard(ctx):
    import_pydsdl()
    rng = ctx.rng
    p = ctx.params
    n = ctx.share(p["n"])
    trees = []
    meta = {}
    work = ctx.tmp / "c10"
    shutil.rmtree(work, ignore_errors=True)
    work.mkdir(parents=True)
    for k in range(n):
        seed = rng.randrange(1 << 40)
        r2 = random.Random(seed)
        ns = GN.gen_namespace(r2)
        mirror = None
        names = [r["name"] for r in ns["roots"]]
        if len(set(names)) >= 2 and r2.random() < 0.6:
            # two root namespaces that hold a definition at the SAME relative location (sub-namespace path, file name): two
            # definitions, two composites - and a target subset that asks for both
            cand = [i for i, d in enumerate(ns["defs"]) if d["kind"] == "msg"]
            if cand:
                i0 = r2.choice(cand)
                d0 = ns["defs"][i0]
                others = [j for j, nm in enumerate(names) if nm != names[d0["root"]]]
                j = r2.choice(others)
                if not any(x["root"] == j and x["ns"] == d0["ns"] and x["short"].lower() == d0["short"].lower() for x in ns["defs"]):
                    twin = dict(d0, root=j, refs=[], id=d0["id"] + 500000, extra=[], ns=list(d0["ns"]))
                    ns["defs"].append(twin)
                    mirror = (i0, len(ns["defs"]) - 1)
        base = (work / ("t%d" % k)).resolve()
        paths = GN.write_namespace(ns, base)
        root = str(base / ns["roots"][0]["dir"])
        lookups = [str(base / r["dir"]) for r in ns["roots"][1:]]
        configs = []
        cid = 0
        sp = r2.sample(SPELLINGS, min(p["spellings"], len(SPELLINGS)))
        # read_namespace under perturbations
        for si in range(p["shuffles"]):
            for how in sp:
                configs.append({"id": "ns-%d" % cid, "call": "read_namespace", "spelling": how, "shuffle": si > 0, "reorder": si > 0,
                                "perturb_seed": r2.randrange(1 << 30), "group": "ns"})
                cid += 1
        # read_files for a few target subsets
        subsets = []
        for g in range(2):
            m = r2.randrange(1, min(4, len(ns["defs"])) + 1)
            subsets.append(sorted(r2.sample(range(len(ns["defs"])), m)))
        if mirror:
            subsets.append(sorted(mirror))
            ctx.cls("mirror-twin-targets")
        for gi, sub in enumerate(subsets):
            for si in range(p["shuffles"]):
                how = sp[si % len(sp)]
                configs.append({"id": "rf-%d" % cid, "call": "read_files", "spelling": how, "shuffle": si > 0, "reorder": si > 0,
                                "perturb_seed": r2.randrange(1 << 30), "files": [str(paths[i]) for i in sub], "group": "rf%d" % gi})
                cid += 1
        # directory-set predicate: nested directory as extra lookup / same-name directory with collisions disallowed
        kind = r2.choice(["nested-child", "nested-child-with-sibling", "nested-child-with-sibling", "sibling-prefix-name", "nested-parent", "same-name",
                          "same-name-case", "same-name-allowed", "same-dir-twice", "lookup-pair-mixed-case", "lookup-pair-mixed-case", "lookup-pair-mixed-case-allowed"])
        extra, allow, expect_reject = [], True, False
        if kind == "nested-child":
            sub = base / ns["roots"][0]["dir"] / "zz_nested"
            sub.mkdir(parents=True, exist_ok=True)  # an empty directory: nothing is added to the root namespace
            extra, expect_reject = [str(sub)], True
        elif kind in ("nested-child-with-sibling", "sibling-prefix-name"):
            # an unrelated directory whose path is the root's path followed by a character that sorts before '/'
            rootp = base / ns["roots"][0]["dir"]
            sib = rootp.parent / (rootp.name + r2.choice(["-legacy", ".old", " (copy)", "+", ",x", "!"])) / "sibns"
            sib.mkdir(parents=True, exist_ok=True)
            (sib / "Sib.1.0.dsdl").write_text("@sealed\n")
            extra = [str(sib)]
            if kind == "nested-child-with-sibling":
                sub = rootp / r2.choice(["zz_nested", "aa_nested", "sub/deeper"])
                sub.mkdir(parents=True, exist_ok=True)
                extra = r2.sample([str(sub), str(sib)], 2)
                expect_reject = True
        elif kind == "nested-parent":
            parent = (base / ns["roots"][0]["dir"]).parent
            if parent != base and parent.name.isidentifier():
                extra, expect_reject = [str(parent)], True
            else:
                kind = "same-dir-twice"
        if kind in ("same-name", "same-name-case", "same-name-allowed"):
            nm = ns["roots"][0]["name"]
            alt = nm if kind != "same-name-case" else nm.upper()
            other = base / "elsewhere" / alt
            other.mkdir(parents=True, exist_ok=True)
            (other / "Other.1.0.dsdl").write_text("@sealed\n")
            extra = [str(other)]
            allow = kind == "same-name-allowed"
            expect_reject = not allow
        if kind.startswith("lookup-pair-mixed-case"):
            # two lookup directories (neither is the target root) whose names both contain capital letters and are equal when the letter
            # case is ignored: a collision when collisions are disallowed, in whichever order they are given
            allow = kind.endswith("-allowed")
            a, b = r2.choice([("MyNs", "MyNs"), ("Sensors", "Sensors")] if allow else
                             [("MyNs", "MyNs"), ("Vendor", "VENDOR"), ("MyNs", "mYnS"), ("Sensors", "Sensors"), ("aB", "Ab"), ("X", "X")])
            for where, nm in (("elsewhere1", a), ("elsewhere2", b)):
                (base / where / nm).mkdir(parents=True, exist_ok=True)
                (base / where / nm / "Other.1.0.dsdl").write_text("@sealed\n")
            extra = [str(base / "elsewhere1" / a), str(base / "elsewhere2" / b)]
            if r2.random() < 0.5:
                extra.reverse()
            expect_reject = not allow
        if kind == "same-dir-twice":
            # the same directory twice is one directory; but another directory of the same name among the lookups is a
            # collision when collisions are disallowed
            others_same_name = any(r["name"].lower() == ns["roots"][0]["name"].lower() for r in ns["roots"][1:])
            extra, allow, expect_reject = [root], False, others_same_name
        configs.append({"id": "dir-%d" % cid, "call": "read_namespace", "spelling": "abs-path", "shuffle": False, "reorder": False,
                        "perturb_seed": 1, "extra_lookups": extra, "allow_collision": allow, "group": "dir", "dir_kind": kind, "expect_reject": expect_reject})
        # the same directory set through read_files (roots + lookup directories; name collisions are always allowed there): nesting
        # is rejected whether targets are given or not
        some = [str(paths[i]) for i, d in enumerate(ns["defs"]) if d["root"] == 0][:1]
        for files in ([], some):
            configs.append({"id": "dirf-%d-%d" % (cid, len(files)), "call": "read_files_dirs", "spelling": "abs-path", "shuffle": False, "reorder": False,
                            "perturb_seed": 1, "extra_lookups": extra, "files": files, "group": "dir", "dir_kind": kind + ("/read_files-no-targets" if not files else "/read_files"),
                            "expect_reject": expect_reject and kind.startswith("nested")})
        trees.append({"id": "t%d" % k, "base": str(base), "root": root, "lookups": lookups, "configs": configs})
        meta["t%d" % k] = {"ns": ns, "paths": paths, "base": base, "seed": seed, "subsets": subsets, "dir_kind": kind, "nested_added": kind == "nested-child"}
    spec = {"repo": str(repo_root()), "trees": trees}
    spec_path = work / "spec.json"
    spec_path.write_text(json.dumps(spec))
    outs = []
    for h in range(p["hashseeds"]):
        hs = (ctx.seed * 1000 + ctx.shard * 37 + h * 7919 + 1) % 4294967295
        outp = work / ("out%d.json" % h)
        try:
            r = subprocess.run([PYTHON, "-m", "pv.props.c10_probe", str(spec_path), str(outp)], env=child_env(hs), cwd=str(work),
                               capture_output=True, text=True, timeout=p["time_cap_s"])
            if outp.exists():
                outs.append((hs, json.loads(outp.read_text())))
            else:
                ctx.inconclusive_case("probe under hash seed %d produced nothing: %s" % (hs, r.stderr[-400:]))
        except subprocess.TimeoutExpired:
            ctx.inconclusive_case("probe under hash seed %d timed out" % hs)
    for hs, o in outs:
        ctx.mon("rglob-shuffles", o.get("rglob_calls", 0))
        for form, k in (o.get("forms") or {}).items():
            ctx.cls("argument-form-" + form, k)
    # ---- judge ----
    for t in trees:
        m = meta[t["id"]]
        ns, paths, base = m["ns"], m["paths"], m["base"]
        case = {"ns": ns, "seed": m["seed"]}
        target_idx = [i for i, d in enumerate(ns["defs"]) if d["root"] == 0]
        exp_ns = expected_sig_order(ns, target_idx, paths, str(base))
        if m["nested_added"]:
            pass
        groups = {}
        for cfg in t["configs"]:
            for hs, o in outs:
                res = o["results"].get("%s|%s" % (t["id"], cfg["id"]))
                ctx.mon("config-result")
                if res is None:
                    ctx.violation("C10/probe-missing", "no result for %s" % cfg["id"], case)
                    continue
                if res[0] == "foreign":
                    ctx.violation("C10/foreign-exception", "%s %s (%s, hash seed %s): %s" % (cfg["call"], cfg["id"], cfg["spelling"], hs, res[1]), dict(case, cfg=cfg))
                    continue
                groups.setdefault(cfg["group"], []).append((cfg, hs, res))
        # read_namespace group: order oracle + determinism
        for cfg, hs, res in groups.get("ns", []):
            if res[0] != "ok":
                ctx.violation("C10/valid-rejected", "read_namespace (%s, hash seed %s) rejected a valid tree: %s" % (cfg["spelling"], hs, res[1]), dict(case, cfg=cfg))
                continue
            ctx.mon("order-oracle")
            if brief(res[1]) != exp_ns:
                got = brief(res[1])
                mech = "C10/order" if sorted(map(tuple, got)) == sorted(map(tuple, exp_ns)) else "C10/content"
                ctx.violation(mech, "read_namespace (%s, shuffle %s, hash seed %s) returned %r, expected %r" % (cfg["spelling"], cfg["shuffle"], hs, got, exp_ns), dict(case, cfg=cfg))
                break
        for g, items in groups.items():
            oks = [(c, h, r) for c, h, r in items if r[0] == "ok"]
            if g == "dir":
                continue
            for c, h, r in oks[1:]:
                ctx.mon("determinism-compare")
                if r != oks[0][2]:
                    ctx.violation("C10/nondeterministic", "%s results differ between (%s, shuffle %s, hash seed %s) and (%s, shuffle %s, hash seed %s)" % (
                        c["call"], oks[0][0]["spelling"], oks[0][0]["shuffle"], oks[0][1], c["spelling"], c["shuffle"], h), dict(case, cfg=c))
                    break
            states = {r[0] for c, h, r in items}
            if len(states) > 1:
                ctx.violation("C10/nondeterministic", "%s accepted in some runs and rejected in others: %r" % (g, sorted((c["spelling"], h, r[0]) for c, h, r in items)[:6]), case)
        # read_files oracle
        for gi, sub in enumerate(m["subsets"]):
            items = groups.get("rf%d" % gi, [])
            if not items:
                continue
            c, h, r = items[0]
            ctx.mon("read-files-oracle")
            if r[0] != "ok":
                ctx.violation("C10/valid-rejected" + ("/relative-spelling" if c["spelling"].startswith("relative") else ""),
                              "read_files %r (%s) rejected: %s" % (sub, c["spelling"], r[1]), dict(case, cfg=c))
                continue
            exp_direct = expected_sig_order(ns, sub, paths, str(base))
            clos = GN.closure(ns, sub)
            exp_trans = expected_sig_order(ns, sorted(clos - set(sub)), paths, str(base))
            if brief(r[1]) != exp_direct:
                ctx.violation("C10/read-files-direct", "direct = %r expected %r" % (brief(r[1]), exp_direct), dict(case, cfg=c))
            if brief(r[2]) != exp_trans:
                ctx.violation("C10/read-files-transitive", "transitive = %r expected %r (targets %r)" % (brief(r[2]), exp_trans, exp_direct), dict(case, cfg=c))
            # the same types as read_namespace yields
            ns_items = [x for x in groups.get("ns", []) if x[2][0] == "ok"]
            if ns_items:
                by_file = {s[4]: s for s in ns_items[0][2][1]}
                for s in r[1] + r[2]:
                    if s[4] in by_file and by_file[s[4]] != s:
                        ctx.violation("C10/read-files-type-differs", "type %s differs between read_files and read_namespace: %r vs %r" % (s[0], s, by_file[s[4]]), dict(case, cfg=c))
        # directory predicate
        for c, h, r in groups.get("dir", []):
            ctx.mon("directory-predicate")
            if c["expect_reject"] and r[0] == "ok":
                ctx.violation("C10/directory-set-accepted", "directory set (%s) must be rejected but was accepted" % c["dir_kind"], dict(case, cfg=c))
            if not c["expect_reject"] and r[0] == "rejected":
                ctx.violation("C10/directory-set-rejected", "directory set (%s) must be accepted but was rejected: %s" % (c["dir_kind"], r[1]), dict(case, cfg=c))
            if c["expect_reject"] and r[0] == "rejected" and r[1] not in ("NestedRootNamespaceError", "RootNamespaceNameCollisionError"):
                ctx.cls("dir-rejected-by-other-error:" + r[1])
            ctx.cls("dir-" + c["dir_kind"])
        vers = {}
        for d in ns["defs"]:
            vers.setdefault(GN.full_name(ns, d), set()).add(tuple(d["ver"]))
        nontrivial = len(ns["defs"]) >= 3 and any(len(v) >= 2 for v in vers.values())
        ctx.case(GN.signature(ns), nontrivial, classes=["roots-%d" % len(ns["roots"])],
                 sample={"files": [str(GN.rel_path(ns, d)) for d in ns["defs"]], "configs": [c["id"] + ":" + c["spelling"] for c in t["configs"]][:8]} if t["id"] in ("t0",) else None)
        # perturbation tuples count as distinct cases too
        for cfg in t["configs"]:
            for hs, _o in outs:
                ctx.sigs.add("%s|%s|%s" % (t["id"], cfg["id"], hs) + str(ctx.shard))
    ctx.evaluations += sum(len(t["configs"]) for t in trees) * max(1, len(outs)) - len(trees)
    pydsdl = import_pydsdl()
    for _ in range(ctx.share(p["n_dup"])):
        duplicate_case(ctx, pydsdl, rng.randrange(1 << 40), ctx.tmp)
    for _ in range(ctx.share(p["n_dup"]) // 4):
        symlink_case(ctx, pydsdl, rng.randrange(1 << 40), ctx.tmp)
    for _ in range(3):
        empty_case(ctx, pydsdl, rng.randrange(1 << 40), ctx.tmp)
    ctx.notes["hash_seeds_per_shard"] = len(outs)
    shutil.rmtree(work, ignore_errors=True)


def duplicate_case(ctx, pydsdl, seed, work):
    """
    Two files of one root namespace directory that define the same full name and version (Foo.1.0.dsdl next to
    Foo.1.0.uavcan, or next to 7000.Foo.1.0.dsdl): "exactly one composite per definition file - none missing" leaves two
    outcomes, an InvalidDefinitionError or one composite per file; silently dropping one of the files is not among them.
    """
    from pathlib import Path

    rng = random.Random(seed)
    base = (work / "dup").resolve()
    shutil.rmtree(base, ignore_errors=True)
    root = base / "dupns"
    sub = root.joinpath(*rng.choice([[], ["a"], ["a", "b"]]))
    sub.mkdir(parents=True)
    short, ver = rng.choice(["Foo", "Bar", "X"]), (rng.choice([0, 1, 2]), rng.choice([1, 2, 5]))
    bodies = ["uint8 a\n@sealed\n", "uint16 a\n@sealed\n", "@sealed\n", "uint8 a\n@extent 64\n", "uint8 a\n@sealed\n---\n@sealed\n"]
    same_text = rng.random() < 0.5
    t1 = rng.choice(bodies)
    t2 = t1 if same_text else rng.choice([b for b in bodies if b != t1])
    how = rng.choice(["extension", "port", "extension+port"])
    f1 = sub / ("%s.%d.%d.dsdl" % (short, ver[0], ver[1]))
    f2 = sub / ("%s%s.%d.%d%s" % ("7000." if "port" in how else "", short, ver[0], ver[1], ".uavcan" if "extension" in how else ".dsdl"))
    f1.write_text(t1)
    f2.write_text(t2)
    others = []
    for i in range(rng.randrange(0, 3)):
        o = root / ("Other%d.1.%d.dsdl" % (i, i))
        o.write_text("uint8 o\n@sealed\n")
        others.append(o)
    case = {"duplicate": seed, "files": [str(f1.relative_to(base)), str(f2.relative_to(base))], "same_text": same_text}
    calls = [("read_namespace", lambda: pydsdl.read_namespace(root, [], allow_unregulated_fixed_port_id=True), [f1, f2] + others),
             ("read_files", lambda: pydsdl.read_files(rng.sample([f1, f2], 2), [root], allow_unregulated_fixed_port_id=True)[0], [f1, f2])]
    try:
        for name, fn, want in calls:
            ctx.mon("duplicate-files")
            try:
                out = fn()
            except pydsdl.InvalidDefinitionError:
                ctx.cls("duplicate-rejected")
                continue
            except Exception as ex:  # noqa
                ctx.violation("C10/foreign-exception", "%s over a directory holding %s and %s: %r escaped" % (name, f1.name, f2.name, ex), case)
                continue
            got = sorted(str(Path(t.source_file_path).resolve()) for t in out)
            if got != sorted(str(x.resolve()) for x in want):
                ctx.violation("C10/duplicate-definition-dropped", "%s over %s and %s (%s text) returned composites for %r only" % (
                    name, f1.name, f2.name, "same" if same_text else "different", [os.path.basename(g) for g in got]), case)
            else:
                ctx.cls("duplicate-both-returned")
    finally:
        shutil.rmtree(base, ignore_errors=True)
    ctx.case(("dup", how, same_text, short, ver, t1, t2), True, classes=["duplicate-" + how])


def empty_case(ctx, pydsdl, seed, work):
    """A root namespace directory without any definition (only sub-directories and other files) and an empty target list."""
    rng = random.Random(seed)
    base = (work / "empty").resolve()
    shutil.rmtree(base, ignore_errors=True)
    root = base / "emptyns"
    (root / "sub" / "deeper").mkdir(parents=True)
    (root / "README.md").write_text("nothing here\n")
    (root / "sub" / "Foo.1.0.txt").write_text("@sealed\n")
    other = base / "otherns"
    other.mkdir()
    (other / "X.1.0.dsdl").write_text("@sealed\n" if rng.random() < 0.7 else "garbage %%%\n")
    case = {"empty": seed}
    try:
        ctx.mon("empty-namespace")
        for what, fn, exp in (("read_namespace(empty root)", lambda: pydsdl.read_namespace(root, [other]), []),
                              ("read_files([])", lambda: pydsdl.read_files([], [root, other]), ([], [])),
                              ("read_files(None)", lambda: pydsdl.read_files(None, [other], [root]), ([], []))):
            try:
                got = fn()
                if got != exp:
                    ctx.violation("C10/content", "%s returned %r, expected %r" % (what, got, exp), case)
            except Exception as ex:  # noqa
                ctx.violation("C10/valid-rejected" if isinstance(ex, pydsdl.InvalidDefinitionError) else "C10/foreign-exception", "%s: %r" % (what, ex), case)
    finally:
        shutil.rmtree(base, ignore_errors=True)
    ctx.case(("empty", seed % 3), True, classes=["empty-namespace"])


def symlink_case(ctx, pydsdl, seed, work, prefix="C10"):
    """
    Definition files that are symbolic links (to another definition of the same root, to a file outside the root, with a
    relative or absolute link target): a link is a definition file of the directory it sits in like any other entry, so
    there is one composite per entry, named by the ENTRY (name, version, port-ID from the link's own file name, namespace
    from its own directory), holding the text the link leads to.  Also used by C15 (prefix) for the identity clauses.
    """
    from pathlib import Path

    rng = random.Random(seed)
    base = (work / "lnk").resolve()
    shutil.rmtree(base, ignore_errors=True)
    rootname = rng.choice(["lnkns", "vendor"])
    root = base / rng.choice(["", "ws"]) / rootname
    (root / "sub").mkdir(parents=True)
    outside = base / "outside"
    outside.mkdir()
    real = {root / "Real.1.0.dsdl": "uint8 a\n@sealed\n", root / "sub" / "Deep.2.1.dsdl": "uint16 d\nuint8 e\n@sealed\n",
            outside / "Ext.1.0.dsdl": "uint32 x\n@sealed\n", outside / "notes.txt": "bool n\n@sealed\n"}
    for f, t in real.items():
        f.write_text(t)
    pool = [
        (root / "Alias.1.1.dsdl", root / "Real.1.0.dsdl"), (root / "sub" / "Twin.3.0.dsdl", root / "Real.1.0.dsdl"),
        (root / "7100.Ported.1.0.dsdl", root / "sub" / "Deep.2.1.dsdl"), (root / "Outside.1.0.dsdl", outside / "Ext.1.0.dsdl"),
        (root / "sub" / "Txt.0.1.dsdl", outside / "notes.txt"), (root / "Legacy.1.0.uavcan", root / "sub" / "Deep.2.1.dsdl"),
    ]
    links = rng.sample(pool, rng.choice([1, 1, 2, 3]))
    for ln, tgt in links:
        ln.symlink_to(tgt if rng.random() < 0.5 else os.path.relpath(str(tgt), str(ln.parent)))
    entries = {f: t for f, t in real.items() if str(f).startswith(str(root))}
    entries.update({ln: real[tgt] for ln, tgt in links})

    def ident(f):
        rel = f.relative_to(root.parent)
        comps = f.name.split(".")[:-1]
        port = int(comps[0]) if len(comps) == 4 else None
        short, ma, mi = comps[-3:]
        return (".".join(list(rel.parent.parts) + [short]), int(ma), int(mi), port, str(f), [ln.split()[-1] for ln in entries[f].splitlines() if not ln.startswith("@")])

    def got_ident(t):
        p = Path(t.source_file_path)
        return (t.full_name, t.version.major, t.version.minor, t.fixed_port_id, str(p.parent.resolve() / p.name), [a.name for a in t.attributes])

    case = {"symlinks": seed, "links": {str(ln.relative_to(base)): str(tgt.relative_to(base)) for ln, tgt in links}}
    want_all = sorted(ident(f) for f in entries)
    try:
        ctx.mon("symlinked-definitions")
        try:
            out = pydsdl.read_namespace(root, [], allow_unregulated_fixed_port_id=True)
            got = sorted(got_ident(t) for t in out)
            if got != want_all:
                ctx.violation(prefix + "/symlinked-definition", "read_namespace over a directory with the links %r returned %r, expected one composite per entry: %r" % (
                    case["links"], [g[:4] + (os.path.basename(g[4]),) for g in got], [w[:4] + (os.path.basename(w[4]),) for w in want_all]), case)
        except pydsdl.InvalidDefinitionError as ex:
            ctx.violation(prefix + "/symlinked-definition", "read_namespace over a directory with the links %r was rejected: %r" % (case["links"], ex), case)
        except Exception as ex:  # noqa
            ctx.violation(prefix + "/foreign-exception", "read_namespace over a directory with the links %r: %r escaped" % (case["links"], ex), case)
        for ln, _tgt in links:
            ctx.mon("symlinked-definitions")
            try:
                d, _tr = pydsdl.read_files([ln], [root], allow_unregulated_fixed_port_id=True)
                if [got_ident(t) for t in d] != [ident(ln)]:
                    ctx.violation(prefix + "/symlinked-definition", "read_files(%s -> %s) returned %r, expected %r" % (
                        ln.name, case["links"][str(ln.relative_to(base))], [got_ident(t)[:4] for t in d], ident(ln)[:4]), case)
            except pydsdl.InvalidDefinitionError as ex:
                ctx.violation(prefix + "/symlinked-definition", "read_files(%s) was rejected: %r" % (ln.name, ex), case)
            except Exception as ex:  # noqa
                ctx.violation(prefix + "/foreign-exception", "read_files(%s): %r escaped" % (ln.name, ex), case)
    finally:
        shutil.rmtree(base, ignore_errors=True)
    ctx.case(("lnk", tuple(sorted(case["links"].items()))), True, classes=["symlinked-definition-files"])


def replay(ctx, case):
    if "symlinks" in case:
        symlink_case(ctx, import_pydsdl(), case["symlinks"], ctx.tmp)
        return
    if "empty" in case:
        empty_case(ctx, import_pydsdl(), case["empty"], ctx.tmp)
        return
    if "duplicate" in case:
        duplicate_case(ctx, import_pydsdl(), case["duplicate"], ctx.tmp)
        return
    print("C10 replays re-run the whole perturbation matrix for the recorded tree seed")
    import_pydsdl()
    ns = GN.gen_namespace(random.Random(case["seed"]))
    print(json.dumps({str(GN.rel_path(ns, d)): GN.render_def(ns, d) for d in ns["defs"]}, indent=1)[:3000])
