"""C05 - a definition is accepted if and only if it obeys the static rules of DSDL (R-rules oracle over rule mutators)."""
from __future__ import annotations

import random
import shutil

from pv.core import CaseTimeout, import_pydsdl
from pv.mon.conserve import Conserve
from pv.mon.const import ConstMonitor
from pv.ref import bls as RB
from pv.ref.layout import Layout

TITLE = "static rules: accepted iff valid"
RULE = (
    "a skeleton that is valid by construction (message or service, structure or union sections, a plain and a deprecated "
    "dependency, vendor or standard root namespace) receives 0, 1 or several rule mutators, each placed at a random admissible "
    "position and each available on both sides of its boundary: bit widths (uint 1/64/65, int 1/2/64/65, float 8/16/17/32/64/"
    "128, void 64/65, truncated int), array capacities ([0] [1] [<1] [<2] [<=0] [<=1]), reserved words in random letter case "
    "and near misses for attributes, type names and namespace directories, name syntax, duplicate attribute names, union "
    "arity and padding, void placement, utf8/byte placement (bare, fixed, variable), deprecated dependency (direct, fixed / "
    "variable array, in a union, in a service response) with the referrer deprecated or not, none/one/both of @sealed/@extent, "
    "@extent before an attribute, extent at max-8/max/max+1/max+8, duplicated or misplaced @union/@deprecated/@sealed, unknown "
    "directive, second ---, versions 0.0/0.1/255.255/256.0/0.256, port-IDs at the subject/service limits and at the regulated "
    "range edges with allow_unregulated_fixed_port_id on and off. Oracle: accepted iff every applied mutator is on its legal "
    "side; every rejection must be an InvalidDefinitionError. M-conserve and M-const stay on. Non-trivial: >=1 mutator; "
    "distinct by (skeleton shape, mutator ids and sides, positions)."
)
ASSUMPTIONS = [
    "the rule list is the one restated in the property; pydsdl-specific extras (name length limit, _offset_ in unions) are avoided by the skeleton",
]
MIN_MONITORS = {"verdict": 30000, "expected-accept": 10000, "expected-reject": 15000, "conserve-finalize": 60000, "verdict-as-dependency": 5000}
THOROUGH_MIN_SCALE = 10


def plan(tier):
    if tier == "quick":
        return {"shards": 16, "params": {"n": 40000, "time_cap_s": 300}}
    return {"shards": 16, "params": {"n": 200000, "time_cap_s": 2400}, "hard_timeout_s": 4000}


RESERVED = ["truncated", "saturated", "true", "false", "bool", "void", "void8", "uint8", "uint", "int", "int64", "float", "float32", "q16_8", "uq1_15",
            "optional", "aligned", "const", "struct", "super", "template", "enum", "self", "and", "or", "not", "auto", "type", "con", "prn", "aux",
            "nul", "com1", "lpt9", "_x_", "__"]
NEAR_MISSES = ["truncate", "saturation", "truth", "bools", "voidx", "uintx", "integer", "floats", "q16", "q_8", "optionally", "structure", "selfie", "android",
               "ore", "nota", "types", "cone", "auxx", "null", "com10", "com", "lpt", "lpt10", "_x", "x_", "a_b_", "_a_b"]


def randcase(rng, s):
    return "".join(c.upper() if rng.random() < 0.5 else c.lower() for c in s)


# the dependency universe (indices used in type descriptions): 0 = Dep (plain), 1 = Old (deprecated)
DEP_UNIVERSE = [
    {"name": "x.Dep", "ver": (1, 0), "kind": "struct", "fields": [{"name": "d", "type": ("uint", 8, "sat")}], "sealed": True, "extent": None},
    {"name": "x.Old", "ver": (1, 0), "kind": "struct", "fields": [{"name": "o", "type": ("uint", 16, "sat")}], "sealed": True, "extent": None},
]


class State:
    def __init__(self, rng):
        self.rng = rng
        self.root = rng.choice(["vnd", "vnd", "uavcan", "cyphal"])
        self.ns_dirs = [rng.choice(["sub", "alpha"])] if rng.random() < 0.4 else []
        self.short = "Main"
        self.version = rng.choice([(1, 0), (0, 1), (2, 3), (255, 255)])
        self.port = None
        self.service = rng.random() < 0.3
        self.allow_unregulated = False
        self.deprecated = rng.random() < 0.25
        self.sections = []
        for si in range(2 if self.service else 1):
            union = rng.random() < 0.3
            stmts = []
            for j in range(rng.choice([2, 3, 4]) if union else rng.choice([0, 1, 2, 3, 4])):
                stmts.append(self.valid_field(si, j))
            self.sections.append({"union": union, "stmts": stmts, "mode": None, "pre_extra": [], "post_extra": []})
        self.labels = []
        self.reject = []

    def valid_field(self, si, j, union=False):
        rng = self.rng
        name = "s%df%d" % (si, j)
        r = rng.random()
        if r < 0.5:
            t = rng.choice([("uint", 8, "sat"), ("uint", 1, "trunc"), ("int", 2), ("int", 64), ("uint", 64, "trunc"), ("float", 16, "sat"), ("float", 64, "trunc"), ("bool",)])
            text = {"uint": lambda: "%suint%d" % ("truncated " if t[2] == "trunc" else "", t[1]), "int": lambda: "int%d" % t[1],
                    "float": lambda: "%sfloat%d" % ("truncated " if t[2] == "trunc" else "", t[1]), "bool": lambda: "bool"}[t[0]]()
        elif r < 0.7:
            cap = rng.choice([1, 2, 3, 255, 256])
            kind = rng.choice(["fixed", "var"])
            t = (kind, ("uint", 8, "sat"), cap)
            text = "uint8[%s%d]" % ("" if kind == "fixed" else "<=", cap)
        elif r < 0.85:
            t = ("ref", 0)
            text = "%s.Dep.1.0" % self.root
        else:
            t = ("var", ("utf8",), 10) if rng.random() < 0.5 else ("fixed", ("byte",), 4)
            text = "utf8[<=10]" if t[0] == "var" else "byte[4]"
        return {"text": "%s %s" % (text, name), "type": t, "kind": "field"}

    def claim(self, what):
        """Singleton aspects (short name, version, port, mode of a section) are mutated at most once."""
        self._claimed = getattr(self, "_claimed", set())
        if what in self._claimed:
            return False
        self._claimed.add(what)
        return True

    def name_in_use(self, name):
        for sec in self.sections:
            for x in sec["stmts"]:
                if x["kind"] in ("field", "const") and x["text"].split("=")[0].split()[-1] == name:
                    return True
        return False

    def add(self, label, ok):
        self.labels.append(label + (":ok" if ok else ":bad"))
        if not ok:
            self.reject.append(label)

    def insert(self, si, stmt):
        sec = self.sections[si]
        sec["stmts"].insert(self.rng.randrange(len(sec["stmts"]) + 1), stmt)

    def fresh(self):
        self._n = getattr(self, "_n", 0) + 1
        return "m%d" % self._n


# ------------------------------------------------------------------------------------------------------------------
# mutators: each applies itself to the state and records (label, legal side?)
# ------------------------------------------------------------------------------------------------------------------
def m_width(st):
    rng = st.rng
    si = rng.randrange(len(st.sections))
    kind, n, ok, t = rng.choice([
        ("uint", 1, True, ("uint", 1, "sat")), ("uint", 64, True, ("uint", 64, "sat")), ("uint", 65, False, None), ("uint", 100, False, None),
        ("int", 1, False, None), ("int", 2, True, ("int", 2)), ("int", 64, True, ("int", 64)), ("int", 65, False, None),
        ("float", 8, False, None), ("float", 16, True, ("float", 16, "sat")), ("float", 17, False, None), ("float", 32, True, ("float", 32, "sat")),
        ("float", 64, True, ("float", 64, "sat")), ("float", 128, False, None), ("float", 1, False, None),
    ])
    st.insert(si, {"text": "%s%d %s" % (kind, n, st.fresh()), "type": t, "kind": "field"})
    st.add("width-%s%d" % (kind, n), ok)


def m_width_spelling(st):
    """The width suffix is a decimal number in ASCII digits without a leading zero; look-alike spellings are no types."""
    rng = st.rng
    si = rng.randrange(len(st.sections))
    text = rng.choice(["uint1\u0666", "uint\u0661\u0666", "int3\uff12", "float3\u0662", "uint08", "uint0x10", "uint1_6", "uint+8", "uint 8", "uint8.0", "uint1e1",
                       "int\u00b2", "uint1\u00b2", "float\u2463", "void1\u0666", "void08", "uint8\u200b", "u\u0131nt8", "U\u0130NT8", "Uint8", "UINT8", "uint", "int", "float", "void"])
    if text.startswith("void"):
        st.insert(si, {"text": text, "type": None, "kind": "pad"})
    else:
        st.insert(si, {"text": "%s %s" % (text, st.fresh()), "type": None, "kind": "field"})
    st.add("width-spelling-%s" % text.encode("ascii", "backslashreplace").decode(), False)


def m_truncated_signed(st):
    si = st.rng.randrange(len(st.sections))
    if st.rng.random() < 0.5:
        st.insert(si, {"text": "truncated int8 %s" % st.fresh(), "type": None, "kind": "field"})
        st.add("truncated-int", False)
    else:
        st.insert(si, {"text": "truncated uint8 %s" % st.fresh(), "type": ("uint", 8, "trunc"), "kind": "field"})
        st.add("truncated-uint", True)


def m_void(st):
    rng = st.rng
    si = rng.randrange(len(st.sections))
    n, ok = rng.choice([(1, True), (64, True), (65, False), (8, True)])
    union = st.sections[si]["union"]
    st.insert(si, {"text": "void%d" % n, "type": ("void", n) if ok else None, "kind": "pad"})
    st.add("void%d-in-%s" % (n, "union" if union else "struct"), ok and not union)


def m_void_misuse(st):
    rng = st.rng
    si = rng.randrange(len(st.sections))
    text = rng.choice(["void8 named", "void8[2] arr", "void8[<=2] arr"])
    st.insert(si, {"text": text.replace("named", st.fresh()).replace("arr", st.fresh()), "type": None, "kind": "field"})
    st.add("void-misuse", False)


def m_capacity(st):
    rng = st.rng
    si = rng.randrange(len(st.sections))
    spec, ok, t = rng.choice([("[0]", False, None), ("[1]", True, ("fixed", ("uint", 8, "sat"), 1)), ("[<1]", False, None), ("[<2]", True, ("var", ("uint", 8, "sat"), 1)),
                              ("[<=0]", False, None), ("[<=1]", True, ("var", ("uint", 8, "sat"), 1)), ("[-1]", False, None), ("[<=-1]", False, None)])
    st.insert(si, {"text": "uint8%s %s" % (spec, st.fresh()), "type": t, "kind": "field"})
    st.add("capacity" + spec, ok)


def m_attr_name(st):
    rng = st.rng
    si = rng.randrange(len(st.sections))
    if rng.random() < 0.55:
        name, ok = randcase(rng, rng.choice(RESERVED)), False
    else:
        name, ok = randcase(rng, rng.choice(NEAR_MISSES)), True
    if st.name_in_use(name):
        return
    st.insert(si, {"text": "uint8 %s" % name, "type": ("uint", 8, "sat"), "kind": "field"})
    st.add("attr-name-%s" % name.lower(), ok)


def m_const_name(st):
    rng = st.rng
    si = rng.randrange(len(st.sections))
    if rng.random() < 0.5:
        name, ok = randcase(rng, rng.choice(RESERVED)), False
    else:
        name, ok = randcase(rng, rng.choice(NEAR_MISSES)).upper() + "_K", True
    if st.name_in_use(name):
        return
    st.insert(si, {"text": "uint8 %s = 1" % name, "type": None, "kind": "const"})
    st.add("const-name-%s" % name.lower(), ok)


def m_short_name(st):
    rng = st.rng
    if not st.claim("short"):
        return
    if rng.random() < 0.5:
        st.short, ok = randcase(rng, rng.choice([r for r in RESERVED if r not in ("__",)])), False
    else:
        st.short, ok = randcase(rng, rng.choice(NEAR_MISSES)), True
    st.add("short-name-%s" % st.short.lower(), ok)


def m_namespace_name(st):
    rng = st.rng
    if rng.random() < 0.5:
        nm, ok = randcase(rng, rng.choice([r for r in RESERVED if r != "__"])), False
    else:
        nm, ok = randcase(rng, rng.choice(NEAR_MISSES)), True
    st.ns_dirs = st.ns_dirs + [nm]
    st.add("namespace-name-%s" % nm.lower(), ok)


UNICODE_NAMES = ["Gr\u00f6sse", "m\u00e9t\u00e9o", "Type\u0663", "Sq\u00b2", "\u212aelvin", "\u0416uk", "na\u00efve", "A\u0301b", "\uff21bc", "x\u2160"]


def m_name_syntax(st):
    rng = st.rng
    which = rng.choice(["short-digit", "short-dash", "ns-dash", "ns-digit", "short-unicode", "ns-unicode", "short-unicode", "ns-unicode"])
    if which.startswith("short") and not st.claim("short"):
        return
    if which == "short-unicode":
        st.short = rng.choice(UNICODE_NAMES)
        st.add("name-syntax-short-unicode-" + ascii(st.short).strip("'"), False)
        return
    if which == "ns-unicode":
        nm = rng.choice(UNICODE_NAMES)
        st.ns_dirs = st.ns_dirs + [nm]
        st.add("name-syntax-ns-unicode-" + ascii(nm).strip("'"), False)
        return
    if which == "short-digit":
        st.short = "9Lives"
    elif which == "short-dash":
        st.short = "Ma-in"
    elif which == "ns-dash":
        st.ns_dirs = st.ns_dirs + ["a-b"]
    else:
        st.ns_dirs = st.ns_dirs + ["9ns"]
    st.add("name-syntax-" + which, False)


def m_duplicate(st):
    rng = st.rng
    si = rng.randrange(len(st.sections))
    sec = st.sections[si]
    named = [s for s in sec["stmts"] if s["kind"] in ("field", "const")]
    if not named:
        return
    victim = rng.choice(named)["text"].split("=")[0].split()[-1]
    if rng.random() < 0.5:
        st.insert(si, {"text": "uint16 %s" % victim, "type": ("uint", 16, "sat"), "kind": "field"})
    else:
        st.insert(si, {"text": "uint16 %s = 1" % victim, "type": None, "kind": "const"})
    st.add("duplicate-attribute", False)


def m_same_name_other_section(st):
    if len(st.sections) < 2:
        return
    named = [s for s in st.sections[0]["stmts"] if s["kind"] == "field"]
    if not named:
        return
    victim = named[0]["text"].split()[-1]
    if any(s["text"].split("=")[0].split()[-1] == victim for s in st.sections[1]["stmts"] if s["kind"] != "pad"):
        return
    st.insert(1, {"text": "uint16 %s" % victim, "type": ("uint", 16, "sat"), "kind": "field"})
    st.add("same-name-in-response", True)


def m_union_arity(st):
    rng = st.rng
    si = rng.randrange(len(st.sections))
    if st.labels or not st.claim("arity"):
        return  # replaces the statements of the section: only as the first mutator
    sec = st.sections[si]
    n = rng.choice([0, 1, 2])
    consts = [s for s in sec["stmts"] if s["kind"] == "const"]
    sec["union"] = True
    sec["stmts"] = [st.valid_field(si, 50 + j) for j in range(n)] + consts
    st.arity_mutated = True  # the verdict is computed when all mutators have been applied (others may add variants)


def m_utf8_byte(st):
    rng = st.rng
    si = rng.randrange(len(st.sections))
    text, ok, t = rng.choice([("utf8", False, None), ("byte", False, None), ("utf8[4]", False, None), ("utf8[<=4]", True, ("var", ("utf8",), 4)),
                              ("utf8[<5]", True, ("var", ("utf8",), 4)), ("byte[4]", True, ("fixed", ("byte",), 4)), ("byte[<=4]", True, ("var", ("byte",), 4))])
    st.insert(si, {"text": "%s %s" % (text, st.fresh()), "type": t, "kind": "field"})
    st.add("placement-" + text, ok)


def m_deprecated_dependency(st):
    rng = st.rng
    si = rng.randrange(len(st.sections))
    shape, t = rng.choice([("%s.Old.1.0", ("ref", 1)), ("%s.Old.1.0[2]", ("fixed", ("ref", 1), 2)), ("%s.Old.1.0[<=2]", ("var", ("ref", 1), 2))])
    text = shape % st.root
    st.insert(si, {"text": "%s %s" % (text, st.fresh()), "type": t, "kind": "field"})
    st.add("deprecated-dependency%s%s" % ("-in-union" if st.sections[si]["union"] else "", "-in-response" if si == 1 else ""), st.deprecated)


def m_mode(st):
    rng = st.rng
    si = rng.randrange(len(st.sections))
    if not st.claim("mode%d" % si):
        return
    which = rng.choice(["none", "both-sealed-extent", "both-extent-sealed", "sealed-twice", "extent-twice", "extent-before-attribute", "sealed-first", "sealed-with-arg",
                        "extent-no-arg", "extent-before-constant", "extent-before-padding", "sealed-before-constant", "extent-before-directive"])
    if which == "extent-before-padding" and st.sections[si]["union"]:
        which = "extent-before-constant"
    st.sections[si]["mode"] = which
    st.add("mode-" + which, which in ("sealed-first", "sealed-before-constant", "extent-before-directive"))


def m_extent(st):
    rng = st.rng
    si = rng.randrange(len(st.sections))
    if not st.claim("mode%d" % si):
        return
    delta, ok = rng.choice([(-8, False), (0, True), (1, False), (8, True), (7, False), (800, True)])
    st.sections[si]["mode"] = ("extent-delta", delta)
    st.add("extent-max%+d" % delta, ok)


def has_attr(sec):
    return any(x["kind"] in ("field", "pad", "const") for x in sec["stmts"])


def m_directive(st):
    rng = st.rng
    si = rng.randrange(len(st.sections))
    sec = st.sections[si]
    which = rng.choice(["union-twice", "union-after-attribute", "deprecated-twice", "deprecated-after-attribute", "deprecated-in-response", "unknown", "assert-false",
                        "assert-true", "print", "second-marker", "union-with-arg", "assert-nonbool"])
    ok = which in ("assert-true", "print")
    if which not in ("unknown", "assert-false", "assert-true", "print", "assert-nonbool") and not st.claim("directive-" + which):
        return
    if which == "union-twice":
        if not sec["union"] or "@union" in sec["pre_extra"]:
            return
        sec["pre_extra"].append("@union")
    elif which == "union-after-attribute":
        if not has_attr(sec):
            return
        sec["post_extra"].append("@union")
    elif which == "deprecated-twice":
        if si != 0 or not st.deprecated:
            return
        sec["pre_extra"].append("@deprecated")
    elif which == "deprecated-after-attribute":
        if si != 0 or st.deprecated or not has_attr(sec):
            return
        sec["post_extra"].append("@deprecated")
    elif which == "deprecated-in-response":
        if len(st.sections) < 2:
            return
        st.sections[1]["pre_extra"].append("@deprecated")
    elif which == "unknown":
        st.insert(si, {"text": "@%s" % rng.choice(["foo", "Sealed", "UNION", "extend 8", "deprecate"]), "type": None, "kind": "directive"})
    elif which == "assert-false":
        st.insert(si, {"text": "@assert %s" % rng.choice(["false", "1 == 2", "!true"]), "type": None, "kind": "directive"})
    elif which == "assert-true":
        st.insert(si, {"text": "@assert %s" % rng.choice(["true", "1 + 1 == 2"]), "type": None, "kind": "directive"})
    elif which == "assert-nonbool":
        st.insert(si, {"text": "@assert 1", "type": None, "kind": "directive"})
    elif which == "print":
        st.insert(si, {"text": "@print 123", "type": None, "kind": "directive"})
    elif which == "second-marker":
        st.sections[-1]["post_marker"] = True
        if not st.service:
            # a single extra marker turns a message into a service with an empty response that lacks @sealed
            pass
    elif which == "union-with-arg":
        if not sec["union"]:
            return
        sec["pre_extra"] = ["@union 1"]
        sec["no_auto_union"] = True
    st.add("directive-" + which, ok)


def m_version(st):
    if not st.claim("version"):
        return
    v, ok = st.rng.choice([((0, 0), False), ((0, 1), True), ((255, 255), True), ((256, 0), False), ((0, 256), False), ((1, 0), True),
                          ((1, -1), False), ((255, -1), False), ((-1, 0), False), ((0, -1), False), ((-1, 1), False), ((2, 256), False)])
    st.version = v
    st.add("version-%d.%d" % v, ok)


def m_port(st):
    rng = st.rng
    if not st.claim("port"):
        return
    st.allow_unregulated = rng.random() < 0.5
    standard = st.root in ("uavcan", "cyphal")
    if st.service:
        lo, hi, mx = (384, 511, 511) if standard else (256, 383, 511)
    else:
        lo, hi, mx = (7168, 8191, 8191) if standard else (6144, 7167, 8191)
    p = rng.choice([0, lo - 1, lo, hi, hi + 1, mx, mx + 1, (lo + hi) // 2, -1, -lo])  # a negative number is a number the file name can spell, too
    st.port = p
    in_range = 0 <= p <= mx
    ok = in_range and (st.allow_unregulated or lo <= p <= hi)
    st.add("port-%d-%s-%s-%s" % (p, "svc" if st.service else "msg", "std" if standard else "vnd", "unregulated-allowed" if st.allow_unregulated else "regulated-only"), ok)


MUTATORS = [m_width, m_width, m_width_spelling, m_truncated_signed, m_void, m_void_misuse, m_capacity, m_capacity, m_attr_name, m_attr_name, m_const_name, m_short_name,
            m_namespace_name, m_name_syntax, m_duplicate, m_same_name_other_section, m_union_arity, m_utf8_byte, m_deprecated_dependency,
            m_deprecated_dependency, m_mode, m_extent, m_extent, m_directive, m_directive, m_version, m_port, m_port]


# ------------------------------------------------------------------------------------------------------------------
def section_max(st, sec):
    fields = []
    for i, s in enumerate(sec["stmts"]):
        if s["kind"] == "pad" and s["type"]:
            fields.append({"pad": s["type"][1]})
        elif s["kind"] == "field" and s["type"]:
            fields.append({"name": "f%d" % i, "type": s["type"]})
    kind = "union" if sec["union"] and len([f for f in fields if "type" in f]) >= 2 and not any("pad" in f for f in fields) else "struct"
    d = {"name": "x.M", "ver": (1, 0), "kind": kind, "fields": fields, "sealed": True, "extent": None}
    u = DEP_UNIVERSE + [d]
    return RB.ref_max(Layout(u).inner_tree(d))


def render_main(st):
    lines = []
    for si, sec in enumerate(st.sections):
        if si == 1:
            lines.append("---")
        pre = []
        if sec["union"] and not sec.get("no_auto_union"):
            pre.append("@union")
        if si == 0 and st.deprecated:
            pre.append("@deprecated")
        pre += sec["pre_extra"]
        mode = sec["mode"]
        mx = section_max(st, sec)
        if mode == "sealed-first":
            pre.append("@sealed")
        lines += pre
        stmts = [s["text"] for s in sec["stmts"]]
        if mode == "extent-before-attribute":
            # the extent directive must be followed by an *attribute* statement (a directive after it is legal)
            attr_pos = [i for i, s in enumerate(sec["stmts"]) if s["kind"] in ("field", "pad", "const")]
            if attr_pos:
                stmts.insert(attr_pos[-1], "@extent %d" % (mx + 800))
            else:
                stmts = ["@extent %d" % (mx + 800)] + stmts + ["uint8 late_attribute"]
        lines += stmts
        lines += sec["post_extra"]
        if mode is None:
            lines.append(st.rng.choice(["@sealed", "@extent %d" % (mx + 8 * st.rng.choice([0, 1, 10]))]))
        elif mode == "none" or mode == "sealed-first" or mode == "extent-before-attribute":
            pass
        elif mode == "both-sealed-extent":
            lines += ["@sealed", "@extent %d" % (mx + 64)]
        elif mode == "both-extent-sealed":
            # the first directive also with the smallest legal extent (0 bits for a section without fields)
            lines += ["@extent %d" % (mx + st.rng.choice([0, 0, 64])), "@sealed"]
        elif mode == "sealed-twice":
            lines += ["@sealed", "@sealed"]
        elif mode == "extent-twice":
            lines += ["@extent %d" % (mx + st.rng.choice([0, 0, 64])), "@extent %d" % (mx + st.rng.choice([0, 64]))]
        elif mode == "extent-before-constant":
            lines += ["@extent %d" % (mx + 64), "uint8 LATE_CONSTANT = 1"]
        elif mode == "extent-before-padding":
            lines += ["@extent %d" % (mx + 64), "void8"]
        elif mode == "sealed-before-constant":
            lines += ["@sealed", "uint8 LATE_CONSTANT = 1"]
        elif mode == "extent-before-directive":
            lines += ["@extent %d" % (mx + 64), "@assert true", "@print 1"]
        elif mode == "sealed-with-arg":
            lines.append("@sealed 1")
        elif mode == "extent-no-arg":
            lines.append("@extent")
        elif isinstance(mode, tuple) and mode[0] == "extent-delta":
            lines.append("@extent %d" % (mx + mode[1]))
        if sec.get("post_marker"):
            lines += ["---", "@sealed"] if not st.service else ["---", "@sealed"]
    return "\n".join(lines) + "\n"


def build(seed):
    rng = random.Random(seed)
    st = State(rng)
    k = rng.choice([0, 1, 1, 1, 2, 2, 3])
    for _ in range(k):
        rng.choice(MUTATORS)(st)
    if getattr(st, "arity_mutated", False):
        for sec in st.sections:
            if sec["union"]:
                nv = sum(1 for x in sec["stmts"] if x["kind"] == "field")
                st.add("union-%d-variants" % nv, nv >= 2)
    # a message with an extra marker becomes a service whose (only) extra section is sealed: that is a second marker only for services
    for sec in st.sections:
        if sec.get("post_marker") and not st.service and len(st.sections) == 1:
            # '---' once in a message makes it a service: legal. Relabel.
            st.labels = [l.replace("directive-second-marker:bad", "directive-marker-makes-service:ok") for l in st.labels]
            st.reject = [r for r in st.reject if r != "directive-second-marker"]
            # ports / deprecation rules of services now apply: keep it simple and drop a message-range port
            if st.port is not None:
                st.port = None
                st.labels = [l for l in st.labels if not l.startswith("port-")]
                st.reject = [r for r in st.reject if not r.startswith("port-")]
    return st


def write_case(st, base):
    root = base / st.root
    d = root.joinpath(*st.ns_dirs)
    d.mkdir(parents=True, exist_ok=True)
    (root / "Dep.1.0.dsdl").write_text("uint8 d\n@sealed\n")
    (root / "Old.1.0.dsdl").write_text("@deprecated\nuint16 o\n@sealed\n")
    fn = "%s.%d.%d.dsdl" % (st.short, st.version[0], st.version[1])
    if st.port is not None:
        fn = "%d.%s" % (st.port, fn)
    text = render_main(st)
    (d / fn).write_text(text)
    return root, d / fn, text


def run_case(ctx, pydsdl, mons, seed, workdir):
    st = build(seed)
    base = workdir / "c05"
    shutil.rmtree(base, ignore_errors=True)
    try:
        root, path, text = write_case(st, base)
        case = {"seed": seed, "labels": st.labels, "file": str(path.relative_to(base)), "text": text, "allow_unregulated": st.allow_unregulated}
        for m in mons:
            m.bind(ctx, case)
        ctx.mon("verdict")
        try:
            pydsdl.read_namespace(root, [], allow_unregulated_fixed_port_id=st.allow_unregulated)
            accepted, err = True, None
        except pydsdl.InvalidDefinitionError as ex:
            accepted, err = False, ex
        except pydsdl.Error as ex:
            ctx.violation("C05/wrong-exception", "%s: %r" % (st.labels, ex), case)
            return st
        except Exception as ex:  # noqa
            ctx.violation("C05/foreign-exception", "%s: %r" % (st.labels, ex), case)
            return st
        if st.reject:
            ctx.mon("expected-reject")
            if accepted:
                ctx.violation("C05/invalid-accepted/" + st.reject[0].split("-")[0], "definition violating %r was accepted:\n%s" % (st.reject, text), case)
        else:
            ctx.mon("expected-accept")
            if not accepted:
                ctx.violation("C05/valid-rejected/" + (st.labels[0].split("-")[0] if st.labels else "skeleton"), "valid definition (%r) rejected: %r\n%s" % (st.labels, err, text), case)
        # placement: the same definition first reached as a dependency of a valid definition that is read before it
        is_service = st.service or len(st.sections) > 1 or any(sec.get("post_marker") for sec in st.sections)
        if not is_service and seed % 3 == 0:
            full = ".".join([st.root] + list(st.ns_dirs) + [st.short])
            (root / "Aaa.1.0.dsdl").write_text("%suint8 before\n%s.%d.%d dep\n@extent 2 ** 60\n" % (
                "@deprecated\n" if st.deprecated else "", full, st.version[0], st.version[1]))
            ctx.mon("verdict-as-dependency")
            try:
                pydsdl.read_namespace(root, [], allow_unregulated_fixed_port_id=st.allow_unregulated)
                accepted2, err2 = True, None
            except pydsdl.InvalidDefinitionError as ex:
                accepted2, err2 = False, ex
            except Exception as ex:  # noqa
                ctx.violation("C05/foreign-exception", "%s (as dependency): %r" % (st.labels, ex), case)
                return st
            if st.reject and accepted2:
                ctx.violation("C05/invalid-accepted/" + st.reject[0].split("-")[0], "definition violating %r was accepted when first reached as a dependency:\n%s" % (st.reject, text), case)
            if not st.reject and not accepted2:
                ctx.violation("C05/valid-rejected/" + (st.labels[0].split("-")[0] if st.labels else "skeleton"),
                              "valid definition (%r) rejected when first reached as a dependency: %r\n%s" % (st.labels, err2, text), case)
        return st
    finally:
        shutil.rmtree(base, ignore_errors=True)


def run_shard(ctx):
    pydsdl = import_pydsdl()
    mons = [Conserve(pydsdl).install(), ConstMonitor(pydsdl).install()]
    for i in range(ctx.share(ctx.params["n"])):
        if ctx.out_of_time():
            break
        seed = ctx.rng.randrange(1 << 40)
        try:
            with ctx.watchdog(60):
                st = run_case(ctx, pydsdl, mons, seed, ctx.tmp)
        except CaseTimeout:
            ctx.inconclusive_case("watchdog", {"seed": seed})
            continue
        shape = (st.service, tuple(s["union"] for s in st.sections), tuple(len(s["stmts"]) for s in st.sections), st.deprecated, st.root)
        ctx.case((shape, tuple(st.labels)), bool(st.labels), classes=["expect-" + ("reject" if st.reject else "accept")] + ["mut-" + l.split("-")[0] + (":bad" if l.endswith(":bad") else ":ok") for l in st.labels],
                 sample={"labels": st.labels, "text": render_main(st)} if i < 3 else None)


def replay(ctx, case):
    pydsdl = import_pydsdl()
    mons = [Conserve(pydsdl).install(), ConstMonitor(pydsdl).install()]
    st = run_case(ctx, pydsdl, mons, case["seed"], ctx.tmp)
    print(st.labels, st.reject)
