"""C19 - definitions outside the dependency closure cannot influence the result (differential monitor + M-print + M-open)."""
from __future__ import annotations

import copy
import os
import random
import shutil
import sys

from pv.core import CaseTimeout, import_pydsdl
from pv.gen import ns as GN

TITLE = "independence from definitions outside the closure"
RULE = (
    "namespace trees with >=2 root namespaces (valid ones and ones with an error inside the closure); the read "
    "(read_namespace of the target root with lookups, or read_files of a target subset) is performed once as a baseline and "
    "then again after the text of one definition outside the dependency closure - a lookup definition, or for read_files "
    "any non-target definition of the targets' own roots - has been replaced by: garbage, empty text, rule violations "
    "(bad width, missing @sealed, malformed union), failing @assert, @print, a service instead of a message, a conflicting "
    "sealing/extent versus its sibling minor version, an unresolvable or cyclic reference, a deprecated marker; or after "
    "two mutually colliding fixed-port definitions were added to a lookup directory. The outcome signature (types with "
    "attributes and layout, or error class + path + line) and the @print log must be identical; the print handler must "
    "never fire for the victim. Files opened during the read are recorded through an audit hook (informational). "
    "Non-trivial: >=1 definition outside the closure; distinct by (namespace, victim, replacement)."
)
ASSUMPTIONS = ["file names stay valid (a malformed file name in a lookup directory may legitimately be reported)"]
MIN_MONITORS = {"baseline": 1500, "replacement": 4500, "print-log-compare": 4500, "shadow-namespace": 400, "port-contender": 300}
THOROUGH_MIN_SCALE = 10

REPLACEMENTS = {
    "garbage": "%%% this is \x00 not dsdl {{{ '\n",
    "empty": "",
    "bad-width": "uint65 x\n@sealed\n",
    "missing-sealed": "uint8 x\n",
    "malformed-union": "@union\nuint8 a\n@sealed\n",
    "failing-assert": "@assert false\n@sealed\n",
    "print": "@print 'VICTIM-WAS-EVALUATED'\n@sealed\n",
    "service": "uint8 a\n@sealed\n---\nuint8 b\n@sealed\n",
    "other-extent": "uint64 PV_ID = 1\nuint8[100] blob\n@extent 8000\n",
    "unresolvable-reference": "nonexistent.Type.1.0 x\n@sealed\n",
    "self-reference": "{self} me\n@sealed\n",
    "deprecated": "@deprecated\nuint8 x\n@sealed\n",
    "syntax-error": "uint8 [[[ x\n@sealed\n",
    "internal-arith": "@print (-8) ** (1/2)\n@sealed\n",
}


def plan(tier):
    if tier == "quick":
        return {"shards": 16, "params": {"n": 2000, "replacements": 5, "time_cap_s": 300}}
    return {"shards": 16, "params": {"n": 32000, "replacements": 10, "time_cap_s": 2400}, "hard_timeout_s": 4000}


_OPENED = []
_HOOKED = [False]


def install_open_hook():
    if _HOOKED[0]:
        return
    _HOOKED[0] = True

    def hook(event, args):
        if event == "open" and args and isinstance(args[0], (str, bytes, os.PathLike)):
            p = os.fspath(args[0])
            if isinstance(p, bytes):
                p = p.decode("utf-8", "replace")
            if p.endswith(".dsdl") or p.endswith(".uavcan"):
                _OPENED.append(p)

    sys.addaudithook(hook)


def type_sig(pydsdl, t, base):
    body = [t.request_type, t.response_type] if isinstance(t, pydsdl.ServiceType) else [t]
    return [t.full_name, t.version.major, t.version.minor, type(t).__name__, t.fixed_port_id, t.deprecated, os.path.relpath(str(t.source_file_path), base),
            [[str(a) for a in b.attributes] + [b.extent, b.bit_length_set.min, b.bit_length_set.max, type(b).__name__] for b in body]]


def perform(pydsdl, ns, base, paths, call):
    """Returns (outcome signature, print log, opened files)."""
    prints = []
    handler = lambda p, l, t: prints.append((os.path.relpath(str(p), base), l, t))  # noqa
    del _OPENED[:]
    try:
        if call["api"] == "read_namespace":
            res = pydsdl.read_namespace(base / ns["roots"][0]["dir"], [base / ns["roots"][j]["dir"] for j in call["lookups"]], print_output_handler=handler)
            sig = ["ok", [type_sig(pydsdl, t, base) for t in res]]
        else:
            d, tr = pydsdl.read_files([paths[i] for i in call["targets"]], [base / r["dir"] for r in ns["roots"]], print_output_handler=handler)
            sig = ["ok", [type_sig(pydsdl, t, base) for t in d], [type_sig(pydsdl, t, base) for t in tr]]
    except pydsdl.Error as ex:
        sig = ["error", type(ex).__name__, os.path.relpath(str(ex.path), base) if ex.path else None, ex.line]
    except Exception as ex:  # noqa
        sig = ["foreign", type(ex).__name__, str(ex)[:200]]
    return sig, prints, list(_OPENED)


def add_prints_and_faults(rng, ns):
    """Sprinkle @print into closure definitions and, sometimes, a fault into one target (error outcomes must be stable too)."""
    for d in ns["defs"]:
        if rng.random() < 0.3:
            d["extra"] = d.get("extra", []) + ["@print %d" % d["id"]]
    if rng.random() < 0.2:
        cand = [d for d in ns["defs"] if d["root"] == 0]
        if cand:
            rng.choice(cand)["extra"].append(rng.choice(["@assert false", "uint65 bad", "@print 1 +", "nonexistent.T.1.0 q"]))
            return True
    return False


def twin_experiment(ctx, pydsdl, rng, ns, base, paths, call, clos, case):
    """
    A second, unreferenced file that defines the same full name and version as a TARGET: next to it under another file name
    (fixed port-ID prefix, legacy extension) for read_files - where either file of the pair may be the one requested - or in a
    lookup directory named like the target's root for read_namespace.  Nothing refers to that name, so the file that was not
    requested is outside the closure: whatever its text is replaced by, the outcome and the print log must stay the same.
    """
    defs = ns["defs"]
    referenced = {r.get("target") for i in clos for r in defs[i]["refs"]}
    if call["api"] == "read_files":
        cand = [i for i in call["targets"] if i not in referenced and defs[i]["ext"] == ".dsdl"]
    else:
        cand = [i for i in clos if defs[i]["root"] == 0 and i not in referenced]
    if not cand:
        return
    ti = rng.choice(cand)
    t = defs[ti]
    ns2, call2, paths2 = ns, dict(call), list(paths)
    stem = "%s.%d.%d" % (t["short"], t["ver"][0], t["ver"][1])
    if call["api"] == "read_files":
        name = rng.choice([("7003." + stem if t.get("port") is None else stem) + ".dsdl", ("%d." % t["port"] if t.get("port") is not None else "") + stem + ".uavcan"])
        twin = paths[ti].parent / name
        swap = rng.random() < 0.5
    else:
        nm = ns["roots"][0]["name"]
        ns2 = dict(ns, roots=ns["roots"] + [{"dir": "twinlk/" + nm, "name": nm}])
        call2["lookups"] = list(call["lookups"]) + [len(ns2["roots"]) - 1]
        name = rng.choice([paths[ti].name, ("7003." + stem if t.get("port") is None else stem) + ".dsdl", stem + ".uavcan"])
        twin = (base / "twinlk" / nm).joinpath(*t["ns"]) / name
        swap = False
    if twin.exists():
        return
    twin.parent.mkdir(parents=True, exist_ok=True)
    original = paths[ti].read_text()
    requested, other = (twin, paths[ti]) if swap else (paths[ti], twin)
    if swap:
        paths2[ti] = twin
    try:
        twin.write_text("uint64 PV_ID = 424242\nuint16 twin_marker\n@sealed\n")
        ctx.mon("baseline")
        sig1, prints1, _ = perform(pydsdl, ns2, base, paths2, call2)
        benign = other.read_text()
        for kind in rng.sample(["garbage", "failing-assert", "print", "bad-width", "syntax-error", "other-extent", "missing-sealed"], 3):
            other.write_text(REPLACEMENTS[kind], encoding="utf-8")
            ctx.mon("replacement")
            sig2, prints2, _ = perform(pydsdl, ns2, base, paths2, call2)
            c2 = dict(case, kind="target-twin/" + kind, victim=os.path.relpath(str(other), base), requested=os.path.relpath(str(requested), base), call=call2)
            if sig2 != sig1:
                ctx.violation("C19/outcome-changed/target-twin", "%s: %s was requested; replacing its unreferenced namesake %s by %s changed the outcome: %r -> %r" % (
                    call["api"], c2["requested"], c2["victim"], kind, str(sig1)[:300], str(sig2)[:300]), c2)
            ctx.mon("print-log-compare")
            if sorted(prints2) != sorted(prints1):
                ctx.violation("C19/print-log-changed/target-twin", "print log changed: %r -> %r" % (prints1[:5], prints2[:5]), c2)
            if any("VICTIM-WAS-EVALUATED" in x for _p, _l, x in prints2):
                ctx.violation("C19/victim-evaluated", "@print of the unreferenced namesake %s was delivered" % c2["victim"], c2)
            other.write_text(benign, encoding="utf-8")
            ctx.case((GN.signature(ns), ti, "target-twin", kind, call["api"], swap, name), True,
                     classes=["api-" + call["api"], "replacement-target-twin", "twin-" + ("requested-is-the-added-file" if swap else "requested-is-the-original-file")])
    finally:
        paths[ti].write_text(original, encoding="utf-8")
        if twin.exists():
            twin.unlink()
        shutil.rmtree(base / "twinlk", ignore_errors=True)


def shadow_experiment(ctx, pydsdl, rng, ns, base, paths, call, clos, case):
    """
    A definition of the closure, in namespace N, refers to r.A.T.M.m by its full name.  An unreferenced file is added that defines
    N.r.A.T.M.m - a nested namespace of N that is named like the root namespace r - where it is not a target (anywhere for
    read_files; under a lookup directory for read_namespace).  A full name is searched as it is written, so this file is outside
    the closure: whatever its text is, the outcome and the print log stay the same.
    """
    defs = ns["defs"]
    cand = []
    for ci in sorted(clos):
        c = defs[ci]
        if call["api"] == "read_namespace" and c["root"] == 0:
            continue
        for r in c["refs"]:
            if r.get("spell") == "absolute" and r.get("target") is not None:
                cand.append((ci, r["target"]))
    if not cand:
        return
    ci, oi = rng.choice(cand)
    c, o = defs[ci], defs[oi]
    shadow = (base / ns["roots"][c["root"]]["dir"]).joinpath(*c["ns"]).joinpath(*GN.full_name(ns, o).split(".")[:-1]) / (
        "%s.%d.%d.dsdl" % (o["short"], o["ver"][0], o["ver"][1]))
    if shadow.exists():
        return
    top = (base / ns["roots"][c["root"]]["dir"]).joinpath(*c["ns"]) / ns["roots"][o["root"]]["name"]
    existed = top.exists()
    try:
        shadow.parent.mkdir(parents=True, exist_ok=True)
        shadow.write_text("uint64 PV_ID = 515151\nuint16 shadow_marker\n@sealed\n")
        ctx.mon("baseline")
        sig1, prints1, _ = perform(pydsdl, ns, base, paths, call)
        for kind in rng.sample(["garbage", "failing-assert", "print", "bad-width", "syntax-error", "other-extent", "missing-sealed", "service", "unresolvable-reference"], 3):
            shadow.write_text(REPLACEMENTS[kind], encoding="utf-8")
            ctx.mon("replacement")
            ctx.mon("shadow-namespace")
            sig2, prints2, _ = perform(pydsdl, ns, base, paths, call)
            c2 = dict(case, kind="shadow/" + kind, victim=os.path.relpath(str(shadow), base), referrer=str(GN.rel_path(ns, c)), call=call)
            if sig2 != sig1:
                ctx.violation("C19/outcome-changed/shadow-namespace", "%s: %s refers to %s by its full name; replacing the unreferenced %s by %s changed the outcome: %r -> %r" % (
                    call["api"], c2["referrer"], GN.full_name(ns, o), c2["victim"], kind, str(sig1)[:300], str(sig2)[:300]), c2)
            ctx.mon("print-log-compare")
            if sorted(prints2) != sorted(prints1):
                ctx.violation("C19/print-log-changed/shadow-namespace", "print log changed: %r -> %r" % (prints1[:5], prints2[:5]), c2)
            if any("VICTIM-WAS-EVALUATED" in x for _p, _l, x in prints2):
                ctx.violation("C19/victim-evaluated", "@print of the unreferenced %s was delivered" % c2["victim"], c2)
            ctx.case((GN.signature(ns), ci, oi, "shadow", kind, call["api"]), True, classes=["api-" + call["api"], "replacement-shadow-namespace"])
    finally:
        if shadow.exists():
            shadow.unlink()
        if not existed:
            shutil.rmtree(top, ignore_errors=True)


def port_contender_experiment(ctx, pydsdl, rng, ns, base, paths, call, case):
    """
    read_files only: a TARGET with a fixed port-ID, and next to it (same root namespace directory) an unreferenced definition that is
    not a target and whose file name claims the same port-ID under another name.  Port-ID collisions are a matter among the
    definitions that are read; this one is not, so its text cannot matter (nor can its presence).
    """
    if call["api"] != "read_files":
        return
    rdir = base / ns["roots"][0]["dir"]
    port = rng.choice([6200, 6144, 7167])
    holder = rdir / ("%d.PortHolder.1.0.dsdl" % port)
    contender = rdir / rng.choice(["%d.Contender.1.0.dsdl" % port, "zz_sub/%d.Contender.0.1.dsdl" % port, "%d.Contender.2.7.uavcan" % port])
    if holder.exists() or contender.exists():
        return
    created_dir = not contender.parent.exists()
    try:
        rdir.mkdir(parents=True, exist_ok=True)
        contender.parent.mkdir(parents=True, exist_ok=True)
        holder.write_text("uint8 held\n@sealed\n")
        contender.write_text("uint16 other\n@sealed\n")

        def perform2():
            prints = []
            handler = lambda p, l, t: prints.append((os.path.relpath(str(p), base), l, t))  # noqa
            try:
                d, tr = pydsdl.read_files([paths[i] for i in call["targets"]] + [holder], [base / r["dir"] for r in ns["roots"]], print_output_handler=handler)
                sig = ["ok", [type_sig(pydsdl, t, base) for t in d], [type_sig(pydsdl, t, base) for t in tr]]
            except pydsdl.Error as ex:
                sig = ["error", type(ex).__name__, os.path.relpath(str(ex.path), base) if ex.path else None, ex.line]
            except Exception as ex:  # noqa
                sig = ["foreign", type(ex).__name__, str(ex)[:200]]
            return sig, prints

        ctx.mon("baseline")
        sig1, prints1 = perform2()
        for kind in rng.sample(["garbage", "failing-assert", "print", "bad-width", "syntax-error", "missing-sealed", "service", "unresolvable-reference", "empty"], 3):
            contender.write_text(REPLACEMENTS[kind], encoding="utf-8")
            ctx.mon("replacement")
            ctx.mon("port-contender")
            sig2, prints2 = perform2()
            c2 = dict(case, kind="port-contender/" + kind, victim=os.path.relpath(str(contender), base), call=call)
            if sig2 != sig1:
                ctx.violation("C19/outcome-changed/port-contender", "read_files: replacing the unreferenced non-target %s (same port-ID as the target %s) by %s changed the outcome: %r -> %r" % (
                    c2["victim"], holder.name, kind, str(sig1)[:300], str(sig2)[:300]), c2)
            ctx.mon("print-log-compare")
            if sorted(prints2) != sorted(prints1):
                ctx.violation("C19/print-log-changed/port-contender", "print log changed: %r -> %r" % (prints1[:5], prints2[:5]), c2)
            if any("VICTIM-WAS-EVALUATED" in x for _p, _l, x in prints2):
                ctx.violation("C19/victim-evaluated", "@print of the unreferenced %s was delivered" % c2["victim"], c2)
            ctx.case((GN.signature(ns), "port-contender", kind, contender.name), True, classes=["api-read_files", "replacement-port-contender"])
        # its mere presence does not matter either
        contender.unlink()
        sig3, _p3 = perform2()
        if sig3 != sig1:
            ctx.violation("C19/outcome-changed/port-contender", "read_files: removing the unreferenced non-target %s changed the outcome: %r -> %r" % (contender.name, str(sig1)[:300], str(sig3)[:300]),
                          dict(case, kind="port-contender/removed", call=call))
    finally:
        for p in (holder, contender):
            if p.exists():
                p.unlink()
        if created_dir:
            shutil.rmtree(contender.parent, ignore_errors=True)


def run_case(ctx, pydsdl, seed, nrep, workdir):
    rng = random.Random(seed)
    ns = GN.gen_namespace(rng, n_roots=rng.choice([2, 2, 3]), deprecated=rng.choice([0.0, 0.2, 0.5]))
    if rng.random() < 0.45:
        # the target's root namespace is defined partially in a second directory of the same name, given as a lookup: its
        # definitions are lookup definitions like any other and stay outside the closure unless referenced
        nm = ns["roots"][0]["name"]
        ns["roots"].append({"dir": "partial/" + nm, "name": nm})
        for k in range(rng.choice([1, 2])):
            ns["defs"].append({"root": len(ns["roots"]) - 1, "ns": [rng.choice(["", "extra"])] if rng.random() < 0.5 else [], "short": "Partial%d" % k,
                               "ver": (1, k), "port": None, "ext": ".dsdl", "id": 99000 + k, "refs": [], "kind": "msg", "sealed": True, "extent": None,
                               "deprecated": False, "extra": []})
            ns["defs"][-1]["ns"] = [x for x in ns["defs"][-1]["ns"] if x]
    faulty = add_prints_and_faults(rng, ns)
    base = (workdir / "c19").resolve()
    shutil.rmtree(base, ignore_errors=True)
    case = {"seed": seed, "nrep": nrep}
    try:
        paths = GN.write_namespace(ns, base)
        n = len(ns["defs"])
        if rng.random() < 0.5:
            call = {"api": "read_namespace", "lookups": list(range(1, len(ns["roots"])))}
            start = [i for i, d in enumerate(ns["defs"]) if d["root"] == 0]
        else:
            k = rng.randrange(1, min(3, n) + 1)
            call = {"api": "read_files", "targets": sorted(rng.sample(range(n), k))}
            start = list(call["targets"])
        try:
            clos = GN.closure(ns, start)
        except KeyError:
            return None
        outside = [i for i in range(n) if i not in clos]
        if call["api"] == "read_namespace":
            outside = [i for i in outside if ns["defs"][i]["root"] != 0]
        if outside and rng.random() < 0.5:
            # definitions of the closure MENTION definitions outside it - in a comment, in a string literal - without referring to
            # them: a mention is not a reference
            for i in sorted(clos):
                if rng.random() < 0.6:
                    o = ns["defs"][rng.choice(outside)]
                    nm = "%s.%d.%d" % (rng.choice([GN.full_name(ns, o), GN.full_name(ns, o), o["short"]]), o["ver"][0], o["ver"][1])
                    ns["defs"][i]["extra"] = ns["defs"][i].get("extra", []) + [rng.choice([
                        "# supersedes %s" % nm, "# %s old_field" % nm, "@assert '%s' != ''" % nm, "@assert \"see %s x\" != '%s'" % (nm, nm), "# @assert %s._extent_ > 0" % nm])]
            paths = GN.write_namespace(ns, base)
            ctx.cls("closure-mentions-outside-definitions")
        ctx.mon("baseline")
        base_sig, base_prints, base_opened = perform(pydsdl, ns, base, paths, call)
        if base_sig[0] == "foreign":
            ctx.violation("C19/foreign-exception", "baseline: %r" % (base_sig,), case)
            return ns, 0
        if rng.random() < 0.5:
            twin_experiment(ctx, pydsdl, rng, ns, base, paths, call, clos, case)
        if rng.random() < 0.6:
            shadow_experiment(ctx, pydsdl, rng, ns, base, paths, call, clos, case)
        if rng.random() < 0.5:
            port_contender_experiment(ctx, pydsdl, rng, ns, base, paths, call, case)
        if not outside:
            return ns, 0
        opened_victims = 0
        for _ in range(nrep):
            kind = rng.choice(list(REPLACEMENTS) + ["add-port-collision", "conflicting-minor", "target-sibling-minor-with-port", "target-sibling-minor-with-port"])
            v = rng.choice(outside)
            d = ns["defs"][v]
            original = paths[v].read_text()
            added = []
            if kind == "add-port-collision":
                lk = [r for j, r in enumerate(ns["roots"]) if j != 0] or ns["roots"]
                rdir = base / rng.choice(lk)["dir"]
                for nm in ("CollideA", "CollideB"):
                    p = rdir / ("7509.%s.1.0.dsdl" % nm)
                    p.write_text("@sealed\n")
                    added.append(p)
            elif kind == "target-sibling-minor-with-port":
                # an unreferenced minor version of a definition INSIDE the closure whose file name carries a conflicting
                # fixed port-ID; it must sit where it is not a target: next to the target for read_files, or in a
                # same-named lookup directory for read_namespace
                t = ns["defs"][rng.choice(sorted(clos))]
                if call["api"] == "read_files":
                    ddir = paths[ns["defs"].index(t)].parent
                else:
                    same = [j for j, r in enumerate(ns["roots"]) if j != 0 and r["name"] == ns["roots"][t["root"]]["name"] and j in call["lookups"]]
                    if not same or t["root"] != 0:
                        continue
                    ddir = (base / ns["roots"][same[0]]["dir"]).joinpath(*t["ns"])
                    ddir.mkdir(parents=True, exist_ok=True)
                taken = {tuple(x["ver"]) for x in ns["defs"] if GN.full_name(ns, x) == GN.full_name(ns, t)}
                newver = (t["ver"][0], (t["ver"][1] + rng.choice([1, 2, 9])) % 256)
                if newver in taken or newver == (0, 0):
                    continue  # the same name and version twice is a (legitimate) collision error, not this experiment
                p = ddir / ("%d.%s.%d.%d.dsdl" % (rng.choice([7001, 7002, 100]), t["short"], newver[0], newver[1]))
                if p.exists():
                    continue
                p.write_text(rng.choice(["@sealed\n", "uint8 z\n@sealed\n", "garbage %%%\n"]))
                added.append(p)
            elif kind == "conflicting-minor":
                # a sibling minor version of the victim with different sealing, both outside the closure
                p = paths[v].parent / ("%s.%d.%d.dsdl" % (d["short"], d["ver"][0], (d["ver"][1] + 17) % 256))
                if p.exists():
                    continue
                p.write_text("uint8[77] q\n@extent 8000\n")
                added.append(p)
            else:
                text = REPLACEMENTS[kind].replace("{self}", "%s.%d.%d" % (GN.full_name(ns, d), d["ver"][0], d["ver"][1]))
                paths[v].write_text(text, encoding="utf-8")
            ctx.mon("replacement")
            sig, prints, opened = perform(pydsdl, ns, base, paths, call)
            c2 = dict(case, kind=kind, victim=str(GN.rel_path(ns, d)), call=call)
            if sig != base_sig:
                ctx.violation("C19/outcome-changed/" + kind, "replacing %s (outside the closure) by %s changed the outcome of %s: %r -> %r" % (
                    GN.rel_path(ns, d), kind, call["api"], str(base_sig)[:300], str(sig)[:300]), c2)
            ctx.mon("print-log-compare")
            if sorted(prints) != sorted(base_prints):
                ctx.violation("C19/print-log-changed/" + kind, "print log changed: %r -> %r" % (base_prints[:5], prints[:5]), c2)
            if any("VICTIM-WAS-EVALUATED" in t for _p, _l, t in prints):
                ctx.violation("C19/victim-evaluated", "@print of the unreferenced definition %s was delivered" % GN.rel_path(ns, d), c2)
            if str(paths[v]) in opened:
                opened_victims += 1
            # restore
            paths[v].write_text(original, encoding="utf-8")
            for p in added:
                p.unlink()
            ctx.case((GN.signature(ns), v, kind, call["api"]), True, classes=["api-" + call["api"], "replacement-" + kind, "baseline-" + base_sig[0]] + (["faulty-closure"] if faulty else []))
        ctx.notes["victim_files_opened"] = ctx.notes.get("victim_files_opened", 0) + opened_victims
        return ns, len(outside)
    finally:
        shutil.rmtree(base, ignore_errors=True)


def run_shard(ctx):
    pydsdl = import_pydsdl()
    install_open_hook()
    for i in range(ctx.share(ctx.params["n"])):
        if ctx.out_of_time():
            break
        seed = ctx.rng.randrange(1 << 40)
        try:
            with ctx.watchdog(120):
                out = run_case(ctx, pydsdl, seed, ctx.params["replacements"], ctx.tmp)
        except CaseTimeout:
            ctx.inconclusive_case("watchdog", {"seed": seed})
            continue
        if out is None:
            continue
        ns, noutside = out
        if noutside == 0:
            ctx.case((GN.signature(ns), "no-outside"), False, classes=["no-definition-outside-closure"])
        if i < 2 and len(ctx.samples) < 3:
            ctx.samples.append({"files": [str(GN.rel_path(ns, d)) for d in ns["defs"]], "outside_closure": noutside})


def replay(ctx, case):
    pydsdl = import_pydsdl()
    install_open_hook()
    run_case(ctx, pydsdl, case["seed"], max(20, case.get("nrep", 5) * 4), ctx.tmp)
