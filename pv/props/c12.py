"""C12 - constants are always compliant with their declared type (boundary grid + M-const contract)."""
from __future__ import annotations

import shutil
from fractions import Fraction

from pv.core import CaseTimeout, import_pydsdl
from pv.mon.const import ConstMonitor
from pv.ref.codec import float_max

TITLE = "constant compliance"
EXHAUSTIVE = True
RULE = (
    "complete boundary grid, enumerated in both tiers: bool, uint1..64 saturated/truncated, int2..64, float16/32/64 "
    "saturated/truncated x initializers {min-1, min, min+1, -1, 0, 1, max-1, max, max+1, max+1/2, 2**64, -2**63-1, '', "
    "'a', 'ab', 'e-acute', '\\x7f', true, false, {1}} resp. for floats {+-max, +-(max+1e-30), +-(max-1e-30), +-(max+ulp), "
    "+-(max-ulp), 1/3, 1e-60, huge}; plus non-constant-capable types (arrays, byte, utf8, composites) and random pairs "
    "(thorough). Valid pairs are batched per file, every invalid pair sits alone in its file. Oracles: accept/reject by "
    "the rules of the statement, stored value = exact rational of the initializer, and the icontract postcondition "
    "M-const on every Constant constructed; strings incl. every kind of non-ASCII character with an ASCII normal / case form. exhaustive=true refers to this finite grid, not to all initializers. "
    "Non-trivial: every grid point sits on or next to a boundary by construction; distinct by (type, initializer)."
)
ASSUMPTIONS = ["the acceptance rules are those restated in the property (range, kind, one ASCII character for uint8 only)"]
MIN_MONITORS = {"grid-pair": 5000, "accepted-value": 1100, "rejected": 3500, "m-const": 1100, "history-pair": 600}
THOROUGH_MIN_SCALE = 1


def plan(tier):
    return {"shards": 16, "params": {"random": 0 if tier == "quick" else 60000, "time_cap_s": 600 if tier == "quick" else 1800}}


def int_types():
    out = []
    for n in range(1, 65):
        out.append(("uint", n, "saturated uint%d" % n, "saturated uint%d" % n))
        out.append(("uint", n, "truncated uint%d" % n, "truncated uint%d" % n))
        if n >= 2:
            out.append(("int", n, "int%d" % n, "saturated int%d" % n))
    return out


def lit(v: int) -> str:
    return str(v) if v >= 0 else "-%d" % -v


def frac_text(fr: Fraction) -> str:
    if fr.denominator == 1:
        return lit(fr.numerator)
    return "%s%d/%d" % ("-" if fr < 0 else "", abs(fr.numerator), fr.denominator)


def real_text(fr: Fraction, exponent=False):
    """The exact decimal expansion of a fraction whose denominator is 2**a * 5**b, as a real literal (None otherwise)."""
    d, k = fr.denominator, 0
    while d % 10 == 0:
        d //= 10
        k += 1
    a = b = 0
    while d % 2 == 0:
        d //= 2
        a += 1
    while d % 5 == 0:
        d //= 5
        b += 1
    if d != 1:
        return None
    k += max(a, b)
    digits = str(abs(fr.numerator) * 10 ** k // fr.denominator)
    sign = "-" if fr < 0 else ""
    if exponent:
        return "%s%se-%d" % (sign, digits, k) if k else "%s%se0" % (sign, digits)
    digits = digits.rjust(k + 1, "0")
    return sign + (digits[:-k] + "." + digits[-k:] if k else digits + ".0")


def ascii_lookalikes():
    """
    Non-ASCII characters that some canonical / compatibility normal form or case mapping turns into exactly one ASCII character
    (KELVIN SIGN -> K, GREEK QUESTION MARK -> ;, fullwidth and mathematical letters, LONG S, ...): one character, not ASCII.
    The three whose *canonical composition* is ASCII come first; the rest is a deterministic sample.
    """
    import unicodedata

    first, rest = [], []
    for cp in range(0x80, 0x110000):
        if 0xD800 <= cp <= 0xDFFF:
            continue
        c = chr(cp)
        forms = {unicodedata.normalize(f, c) for f in ("NFC", "NFD", "NFKC", "NFKD")} | {c.lower(), c.upper(), c.casefold()}
        if any(len(x) == 1 and ord(x) < 128 for x in forms):
            (first if len(unicodedata.normalize("NFC", c)) == 1 and ord(unicodedata.normalize("NFC", c)) < 128 else rest).append(c)
    return first + rest[::max(1, len(rest) // 40)]


def grid():
    """Yields (type text, canonical type str, initializer text, expected) with expected = ('ok', value) | ('reject',)."""
    specials = [("''", None), ("'a'", "a"), ("'ab'", None), ("'\\u00e9'", None), ("'é'", None), ("'\\u007f'", "\x7f"), ('"~"', "~"),
                ("true", "bool"), ("false", "bool"), ("{1}", None), ("{'a'}", None)]
    for kind, n, text, canon in int_types():
        lo, hi = (0, (1 << n) - 1) if kind == "uint" else (-(1 << (n - 1)), (1 << (n - 1)) - 1)
        vals = {lo - 1, lo, lo + 1, -1, 0, 1, hi - 1, hi, hi + 1, 1 << 64, -(1 << 63) - 1, (1 << 63), (1 << 64) - 1}
        for v in sorted(vals):
            yield text, canon, lit(v), (("ok", Fraction(v)) if lo <= v <= hi else ("reject",))
        for fr in (Fraction(2 * hi + 1, 2), Fraction(1, 2), Fraction(2 * lo - 1, 2)):
            yield text, canon, "(%s)" % frac_text(fr) if fr >= 0 else "(0 - %s)" % frac_text(-fr), ("reject",)
        yield text, canon, "%d.0" % max(hi, 0), ("ok", Fraction(max(hi, 0)))  # a real literal with an integer value is an integer
        # real literals with far more significant digits than any floating-point or fixed-precision decimal type carries
        tiny = Fraction(1, 10 ** 35)
        yield text, canon, real_text(Fraction(max(hi, 0)) + tiny), ("reject",)
        yield text, canon, "%d.%s" % (max(hi, 0), "0" * 40), ("ok", Fraction(max(hi, 0)))
        if hi >= 1:
            yield text, canon, real_text(Fraction(hi) - tiny), ("reject",)
        for init, ch in specials:
            if ch == "bool" or ch is None:
                yield text, canon, init, ("reject",)
            else:
                ok = kind == "uint" and n == 8
                yield text, canon, init, (("ok", Fraction(ord(ch))) if ok else ("reject",))
    for c in ascii_lookalikes():
        esc = "\\u%04x" % ord(c) if ord(c) <= 0xFFFF else "\\U%08x" % ord(c)
        for text in ("saturated uint8", "truncated uint8", "saturated uint16", "saturated int8"):
            for init in ("'%s'" % c, "'%s'" % esc, "'%s' + ''" % esc, '"" + "%s"' % c):
                yield text, text, init, ("reject",)
    for text in ("saturated uint8", "truncated uint8"):
        # the value of a concatenation is a string like any other: one ASCII character or not
        for init, ch in (("'' + 'a'", "a"), ("'a' + ''", "a"), ("'a' + 'b'", None), ("'' + ''", None), ("'\\u0041' + \"\"", "A")):
            yield text, text, init, (("ok", Fraction(ord(ch))) if ch else ("reject",))
    for w in (16, 32, 64):
        mx = float_max(w)
        e, m = {16: (5, 10), 32: (8, 23), 64: (11, 52)}[w]
        ulp = Fraction(2) ** ((1 << (e - 1)) - 1 - m)
        eps = Fraction(1, 10 ** 30)
        for mode in ("saturated", "truncated"):
            text = canon = "%s float%d" % (mode, w)
            for sign in (1, -1):
                for fr, ok in ((mx, True), (mx + eps, False), (mx - eps, True), (mx + ulp, False), (mx - ulp, True), (mx * 2, False),
                               (Fraction(1, 3), True), (Fraction(1, 10 ** 60), True), (Fraction(0), True), (Fraction(10) ** 400, False)):
                    fr = fr * sign
                    init = "%d/%d" % (abs(fr.numerator), fr.denominator) if fr.denominator != 1 else str(abs(fr.numerator))
                    if fr < 0:
                        init = "-(%s)" % init
                    yield text, canon, init, (("ok", fr) if ok else ("reject",))
            for sign in (1, -1):
                for fr, ok in ((mx, True), (mx + eps, False), (mx - eps, True), (Fraction(1234567890123456789012345678901234567890, 10 ** 40), True),
                               (Fraction(1, 10 ** 45) + Fraction(1, 10 ** 90), True)):
                    for exponent in (False, True):
                        yield text, canon, real_text(fr * sign, exponent), (("ok", fr * sign) if ok else ("reject",))
            for init in ("true", "'a'", "''", "{1.0}"):
                yield text, canon, init, ("reject",)
    for init, exp in (("true", ("ok", True)), ("false", ("ok", False)), ("!true", ("ok", False)), ("0", ("reject",)), ("1", ("reject",)),
                      ("'a'", ("reject",)), ("{true}", ("reject",)), ("1 == 1", ("ok", True))):
        yield "bool", "bool", init, exp
    # types that cannot carry constants
    for text in ("uint8[2]", "uint8[<=2]", "byte", "utf8", "byte[2]", "utf8[<=2]", "bool[1]", "cns.Dep.1.0", "cns.Dep.1.0[1]"):
        for init in ("1", "true", "'a'"):
            yield text, None, init, ("reject",)


def read_file(pydsdl, workdir, body):
    root = workdir / "c12" / "cns"
    shutil.rmtree(workdir / "c12", ignore_errors=True)
    root.mkdir(parents=True)
    (root / "Dep.1.0.dsdl").write_text("uint8 x\n@sealed\n")
    (root / "C.1.0.dsdl").write_text(body, encoding="utf-8")
    try:
        out = pydsdl.read_namespace(root, [])
        return [t for t in out if t.short_name == "C"][0]
    finally:
        shutil.rmtree(workdir / "c12", ignore_errors=True)


def check_valid_batch(ctx, pydsdl, mon, workdir, batch):
    """batch: list of (type text, canon, init, ('ok', value))."""
    body = "".join("%s K%d = %s\n" % (t, i, init) for i, (t, c, init, e) in enumerate(batch)) + "@sealed\n"
    case = {"body": body}
    mon.bind(ctx, case)
    try:
        m = read_file(pydsdl, workdir, body)
    except pydsdl.InvalidDefinitionError as ex:
        if len(batch) == 1:
            t, c, init, e = batch[0]
            ctx.mon("grid-pair")
            ctx.violation("C12/valid-rejected", "%s K = %s is compliant (value %s) but rejected: %r" % (t, init, e[1], ex), case)
            return
        mid = len(batch) // 2
        check_valid_batch(ctx, pydsdl, mon, workdir, batch[:mid])
        check_valid_batch(ctx, pydsdl, mon, workdir, batch[mid:])
        return
    consts = m.constants
    if len(consts) != len(batch):
        ctx.violation("C12/constant-count", "%d constants in the model, %d declared" % (len(consts), len(batch)), case)
        return
    for cobj, (t, canon, init, e) in zip(consts, batch):
        ctx.mon("grid-pair")
        ctx.mon("accepted-value")
        v = cobj.value.native_value
        if str(cobj.data_type) != canon:
            ctx.violation("C12/type", "%s K = %s: model type %s" % (t, init, cobj.data_type), case)
        if isinstance(e[1], bool):
            if v is not e[1] or not isinstance(cobj.value, pydsdl.Boolean):
                ctx.violation("C12/stored-value", "%s K = %s stored as %r" % (t, init, cobj.value), case)
        elif not isinstance(cobj.value, pydsdl.Rational) or not isinstance(v, Fraction) or v != e[1]:
            ctx.violation("C12/stored-value", "%s K = %s stored as %r, expected exactly %s" % (t, init, cobj.value, e[1]), case)


def check_invalid(ctx, pydsdl, mon, workdir, t, init):
    body = "%s K = %s\n@sealed\n" % (t, init)
    case = {"body": body}
    mon.bind(ctx, case)
    ctx.mon("grid-pair")
    ctx.mon("rejected")
    try:
        m = read_file(pydsdl, workdir, body)
        ctx.violation("C12/invalid-accepted", "%s K = %s must be rejected but was accepted as %s" % (t, init, [str(c) for c in m.constants]), case)
    except pydsdl.InvalidDefinitionError:
        pass
    except pydsdl.Error as ex:
        ctx.violation("C12/wrong-exception", "%s K = %s: %r" % (t, init, ex), case)


def history_pairs(ctx, pydsdl, mon, workdir):
    """
    The verdict on an initializer does not depend on what was accepted before it in the same process: for every arithmetic type,
    `T A = 1` followed by `T K = true` (1 == True in Python, but a boolean is no number), `T A = 0` / `T K = false`, and the other
    way round `bool B = true` followed by `T K = 1` (which must store the exact rational 1, not a boolean).
    """
    types = [(text, canon) for _k, _n, text, canon in int_types()] + [("%s float%d" % (m, w),) * 2 for w in (16, 32, 64) for m in ("saturated", "truncated")]
    for i, (t, canon) in enumerate(types):
        if i % ctx.nshards != ctx.shard:
            continue
        for num, boo in (("1", "true"), ("0", "false")):
            if num == "1" and canon.endswith("int1") and "uint" not in canon:
                continue
            body = "%s A = %s\n%s K = %s\n@sealed\n" % (t, num, t, boo)
            case = {"body": body}
            mon.bind(ctx, case)
            ctx.mon("history-pair")
            ctx.mon("rejected")
            try:
                m = read_file(pydsdl, workdir, body)
                ctx.violation("C12/invalid-accepted", "%s K = %s (after %s A = %s was accepted) must be rejected but was accepted as %s" % (t, boo, t, num, [str(c) for c in m.constants]), case)
            except pydsdl.InvalidDefinitionError:
                pass
            body = "bool B = %s\n%s K = %s\n@sealed\n" % (boo, t, num)
            case = {"body": body}
            mon.bind(ctx, case)
            ctx.mon("history-pair")
            try:
                m = read_file(pydsdl, workdir, body)
            except pydsdl.InvalidDefinitionError as ex:
                ctx.violation("C12/valid-rejected", "%s K = %s (after bool B = %s) is compliant but rejected: %r" % (t, num, boo, ex), case)
                continue
            k = [c for c in m.constants if c.name == "K"][0]
            ctx.mon("accepted-value")
            if not isinstance(k.value, pydsdl.Rational) or isinstance(k.value.native_value, bool) or k.value.native_value != Fraction(int(num)):
                ctx.violation("C12/stored-value", "%s K = %s (after bool B = %s) stored as %r" % (t, num, boo, k.value), case)
        ctx.case(("history", t), True, classes=["history-pair"])


def run_shard(ctx):
    pydsdl = import_pydsdl()
    mon = ConstMonitor(pydsdl).install()
    points = list(grid())
    mine = [p for i, p in enumerate(points) if i % ctx.nshards == ctx.shard]
    ctx.notes["grid_points_total"] = len(points)
    valid = [p for p in mine if p[3][0] == "ok"]
    invalid = [p for p in mine if p[3][0] != "ok"]
    for i in range(0, len(valid), 24):
        try:
            with ctx.watchdog(120):
                check_valid_batch(ctx, pydsdl, mon, ctx.tmp, valid[i:i + 24])
        except CaseTimeout:
            ctx.inconclusive_case("watchdog", {})
    for t, c, init, e in invalid:
        try:
            with ctx.watchdog(60):
                check_invalid(ctx, pydsdl, mon, ctx.tmp, t, init)
        except CaseTimeout:
            ctx.inconclusive_case("watchdog", {"type": t, "init": init})
    try:
        with ctx.watchdog(300):
            history_pairs(ctx, pydsdl, mon, ctx.tmp)
    except CaseTimeout:
        ctx.inconclusive_case("watchdog", {"history_pairs": True})
    for i, (t, c, init, e) in enumerate(mine):
        ctx.case((t, init), True, classes=["expect-" + e[0], "type-" + (c or t).split(" ")[-1].rstrip("0123456789")],
                 sample={"type": t, "initializer": init, "expected": e[0]} if i < 3 else None)
    # random pairs (thorough)
    rng = ctx.rng
    nrand = ctx.share(ctx.params["random"])
    batch = []
    for _ in range(nrand):
        if ctx.out_of_time():
            break
        kind = rng.choice(["uint", "uint", "int", "float"])
        if kind == "float":
            w = rng.choice([16, 32, 64])
            t = "%s float%d" % (rng.choice(["saturated", "truncated"]), w)
            mx = float_max(w)
            fr = mx * Fraction(rng.randrange(-1100, 1101), 1000) if rng.random() < 0.7 else Fraction(rng.randrange(-10 ** 6, 10 ** 6), rng.randrange(1, 1000))
            ok = -mx <= fr <= mx
            init = "%s(%d/%d)" % ("-" if fr < 0 else "", abs(fr.numerator), fr.denominator)
            e = ("ok", fr) if ok else ("reject",)
            canon = t
        else:
            n = rng.randrange(1 if kind == "uint" else 2, 65)
            lo, hi = (0, (1 << n) - 1) if kind == "uint" else (-(1 << (n - 1)), (1 << (n - 1)) - 1)
            mode = rng.choice(["saturated", "truncated"]) if kind == "uint" else "saturated"
            t = canon = "%s %s%d" % (mode, kind, n)
            v = rng.choice([lo, hi]) + rng.randrange(-3, 4) if rng.random() < 0.6 else rng.randrange(lo - 5, hi + 6)
            init, e = lit(v), (("ok", Fraction(v)) if lo <= v <= hi else ("reject",))
        if e[0] == "ok":
            batch.append((t, canon, init, e))
            if len(batch) >= 24:
                check_valid_batch(ctx, pydsdl, mon, ctx.tmp, batch)
                batch = []
        else:
            check_invalid(ctx, pydsdl, mon, ctx.tmp, t, init)
        ctx.case((t, init), True, classes=["random-" + e[0]])
    if batch:
        check_valid_batch(ctx, pydsdl, mon, ctx.tmp, batch)


def replay(ctx, case):
    pydsdl = import_pydsdl()
    mon = ConstMonitor(pydsdl).install()
    mon.bind(ctx, case)
    try:
        m = read_file(pydsdl, ctx.tmp, case["body"])
        print("accepted:", [str(c) for c in m.constants])
    except pydsdl.Error as ex:
        print("rejected:", repr(ex))
