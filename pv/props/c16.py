"""C16 - layout analysis is symbolic: cost does not grow with capacities or extents (M-expand, M-enum, step meter)."""
from __future__ import annotations

import copy
import pickle
import random
import shutil

from pv.core import CaseTimeout, import_pydsdl, repo_root
from pv.gen import types as GT
from pv.mon.symbolic import BudgetExceeded, SymbolicMonitor
from pv.ref import bls as R
from pv.ref.layout import Layout

TITLE = "symbolic layout analysis"
RULE = (
    "definition templates (nesting 1-3, sub-byte and byte-aligned elements, structures of up to 24 fields) instantiated "
    "at 3 magnitudes per template: every array capacity / extent is replaced by values of one prefix-width class that are "
    "congruent modulo 64 and >= 64 (so that the residue algebra is identical) but up to 2**63 apart. While reading the "
    "namespace and querying min/max/extent/fixed_length/is_aligned_at_byte of every type and field offset, == and hash: "
    "(a) no composite operator may be numerically expanded, (b) every multiset enumeration must use a reduced count "
    "r <= 2d-1 over <= d residues and every product <= d**2 tuples, min/max/sum/sorted/any/all inside the symbolic code are charged for the size of the operand they walk, (c) enumerated tuples must be identical and logical "
    "steps within 1.5x across magnitudes. Non-trivial: template has a variable-length array with a multi-valued element; "
    "distinct by (template, magnitude)."
)
ASSUMPTIONS = [
    "cost is measured in logical units (enumerated tuples, PY_START+JUMP events in pydsdl code), never in wall time",
    "templates whose predicted enumeration for the *small* instantiation exceeds the budget are resampled",
]
MIN_MONITORS = {"instantiations": 3000, "queries": 300000, "cwr-calls": 500000, "product-calls": 80000, "magnitude-compare": 1000,
                "builtin-operands-charged": 5000000}
THOROUGH_MIN_SCALE = 8


def plan(tier):
    if tier == "quick":
        return {"shards": 16, "params": {"n": 2400, "time_cap_s": 300}}
    return {"shards": 16, "params": {"n": 40000, "time_cap_s": 2400}, "hard_timeout_s": 4000}


CLASS_RANGES = {8: (64, 255), 16: (256, 65535), 32: (65536, (1 << 32) - 1), 64: (1 << 32, 1 << 63)}


def cap_for(cls, residue, variant):
    """variant-th magnitude (0 smallest .. 2 largest) in the prefix class, congruent to residue modulo 64, >= 64."""
    lo, hi = CLASS_RANGES[cls]
    first = lo + (residue - lo) % 64
    last = hi - (hi - residue) % 64
    if variant == 0:
        return first
    if variant == 2:
        return last
    mid = (first + last) // 2
    return mid - (mid - residue) % 64 if mid - (mid - residue) % 64 >= first else first


def fixed_cap_for(residue, variant):
    return [64 + residue, (1 << 20) + 64 + residue, (1 << 62) + 64 + residue][variant]


def scale_type(t, slots, variant, path):
    k = t[0]
    if k in ("fixed", "var"):
        key = tuple(path)
        if key not in slots:
            raise KeyError(key)
        cls, residue = slots[key]
        elem = scale_type(t[1], slots, variant, path + ["e"])
        if k == "var":
            return ("var", elem, cap_for(cls, residue, variant))
        return ("fixed", elem, fixed_cap_for(residue, variant))
    return t


def collect_slots(rng, t, slots, path):
    if t[0] in ("fixed", "var"):
        slots[tuple(path)] = (rng.choice([8, 16, 32, 64]), t[2] % 64)
        collect_slots(rng, t[1], slots, path + ["e"])


def make_template(rng):
    style = rng.random()
    if style < 0.2:
        # wide structure: stresses the pairwise aggregation
        nf = rng.randrange(12, 25)
        fields = []
        for j in range(nf):
            r = rng.random()
            if r < 0.5:
                ty = GT.gen_primitive(rng)
            elif r < 0.8:
                ty = ("var", rng.choice([("uint", 8, "sat"), ("uint", rng.randrange(1, 8), "trunc"), ("bool",), ("int", 16)]), rng.randrange(1, 200))
            else:
                ty = ("fixed", ("uint", rng.choice([1, 3, 8, 12]), "sat"), rng.randrange(1, 100))
            fields.append({"name": "w%d" % j, "type": ty})
        u = [{"name": "pvns.T0", "ver": (1, 0), "kind": "struct", "fields": fields, "sealed": True, "extent": None}]
    else:
        u = GT.gen_universe(rng, n_defs=rng.choice([1, 2, 3, 4]), small=True, text_ok=True, max_fields=6)
    slots = {}
    ext_slots = {}
    for i, d in enumerate(u):
        for j, f in enumerate(d["fields"]):
            if "type" in f:
                collect_slots(rng, f["type"], slots, [i, j])
        if not d["sealed"]:
            ext_slots[i] = rng.randrange(64)
    return u, slots, ext_slots


def instantiate(u, slots, ext_slots, variant):
    out = []
    for i, d in enumerate(u):
        nd = copy.deepcopy(d)
        for j, f in enumerate(nd["fields"]):
            if "type" in f:
                f["type"] = scale_type(f["type"], slots, variant, [i, j])
        if not nd["sealed"]:
            lay = Layout(out + [dict(nd, sealed=True)])
            q0 = max(64, (R.ref_max(lay.inner_tree(nd)) + 7) // 8)
            r = ext_slots[i]
            q = q0 + (r - q0) % 64 + 64 * [0, 1 << 12, 1 << 40][variant]
            nd["extent"] = 8 * q
        out.append(nd)
    return out


def has_multivalued_var(u):
    lay = Layout(u)
    for d in u:
        for f in d["fields"]:
            if "type" in f and f["type"][0] == "var":
                et = lay.tree(f["type"][1])
                if R.ref_min(et) != R.ref_max(et) or R.ref_min(et) % 8:
                    return True
    return False


def measure(ctx, pydsdl, mon, u, workdir, case):
    """Reads the instantiation through the front door and runs the listed queries under all meters."""
    mon.reset()
    d = workdir / "c16"
    try:
        GT.write_universe(u, d)
        mon.steps_on()
        try:
            objs = pydsdl.read_namespace(d / GT.ROOT, [])
            nq = 0
            for T in objs:
                _ = (T.bit_length_set.min, T.bit_length_set.max, T.extent, T.bit_length_set.fixed_length,
                     T.bit_length_set.is_aligned_at_byte(), T.alignment_requirement)
                nq += 6
                for f, off in T.iterate_fields_with_offsets():
                    _ = (off.is_aligned_at_byte(), off.min, off.max, off.fixed_length)
                    ft = f.data_type
                    _ = (ft.bit_length_set.min, ft.bit_length_set.max, ft.bit_length_set.is_aligned_at_byte(), hash(ft), ft == ft)
                    nq += 9
                _ = hash(T)
                nq += 1
            mon.steps_off()
            # equality / hash against an independently materialised equal object (pickle round trip is not metered for steps)
            for T in objs:
                T2 = pickle.loads(pickle.dumps(T))
                mon.steps_on()
                eq = (T == T2) and (T2 == T) and hash(T) == hash(T2)
                mon.steps_off()
                nq += 3
                if not eq:
                    ctx.violation("C16/eq-after-pickle", "%s is not equal/hash-equal to its pickled copy" % T, case)
            for a in objs:
                for b in objs:
                    mon.steps_on()
                    _ = (a == b)
                    mon.steps_off()
                    nq += 1
        finally:
            mon.steps_off()
        ctx.mon("queries", nq)
    finally:
        shutil.rmtree(d, ignore_errors=True)
    return mon.snapshot()


def run_case(ctx, pydsdl, mon, template, workdir):
    u0, slots, ext_slots = template
    snaps = []
    # a third of the templates also carry a second minor version (same body) of their last definition: reading then runs the
    # cross-version consistency checks, which must not look into the sets either
    twin_minor = (len(slots) + sum(ext_slots.values()) + len(u0)) % 3 == 0
    for variant in range(3):
        u = instantiate(u0, slots, ext_slots, variant)
        if twin_minor:
            u = u + [dict(copy.deepcopy(u[-1]), ver=(1, 1))]
            ctx.cls("second-minor-version")
        case = {"template": u0, "slots": [[list(k), list(v)] for k, v in slots.items()], "ext_slots": ext_slots, "variant": variant}
        ctx.mon("instantiations")
        try:
            with ctx.watchdog(240):
                snap = measure(ctx, pydsdl, mon, u, workdir, case)
        except BudgetExceeded as ex:
            mon.steps_off()
            for kind, detail in mon.events or [("budget", str(ex))]:
                ctx.violation("C16/" + kind, "magnitude %d: %s" % (variant, detail), case)
            ctx.case((GT.universe_sig(u0), variant), True, classes=["aborted-by-budget"])
            return
        except CaseTimeout:
            mon.steps_off()
            ctx.inconclusive_case("wall-clock watchdog (no verdict)", case)
            return
        for kind, detail in mon.events:
            ctx.violation("C16/" + kind, "magnitude %d: %s" % (variant, detail), case)
        for cls_name, size in mon.expansions:
            ctx.violation("C16/composite-expansion", "magnitude %d: %s was numerically expanded (%d elements)" % (variant, cls_name, size), case)
            break
        ctx.mon("cwr-calls", snap["cwr_calls"])
        ctx.mon("product-calls", snap["product_calls"])
        ctx.mon("builtin-operands-charged", snap["enumerated_by_builtins"])
        ctx.notes.setdefault("max_observed", {"r": 0, "residues": 0, "product": 0, "tuples_per_instantiation": 0})
        mo = ctx.notes["max_observed"]
        mo["r"], mo["residues"] = max(mo["r"], snap["max_r"]), max(mo["residues"], snap["max_s"])
        mo["product"], mo["tuples_per_instantiation"] = max(mo["product"], snap["max_product"]), max(mo["tuples_per_instantiation"], snap["tuples"])
        snaps.append(snap)
        ctx.case((GT.universe_sig(u0), variant), has_multivalued_var(u), classes=["magnitude-%d" % variant],
                 sample={"magnitude": variant, "definitions": [GT.render_def(d, u) for d in u], "observed": snap} if len(ctx.samples) < 3 else None)
    ctx.mon("magnitude-compare")
    base = snaps[0]
    for v, s in enumerate(snaps[1:], 1):
        if s["tuples"] != base["tuples"] or s["cwr_calls"] != base["cwr_calls"] or s["product_calls"] != base["product_calls"]:
            ctx.violation("C16/enumeration-grows", "enumerated tuples / calls differ between magnitudes: %r vs %r" % (base, s),
                          {"template": u0, "slots": [[list(k), list(v2)] for k, v2 in slots.items()], "ext_slots": ext_slots, "variant": v})
        elif s["enumerated_by_builtins"] > 1.5 * base["enumerated_by_builtins"] + 2000:
            ctx.violation("C16/numeric-enumeration-grows", "elements walked by min/max/sum/sorted inside the symbolic code grow with magnitude: %r vs %r" % (base, s),
                          {"template": u0, "slots": [[list(k), list(v2)] for k, v2 in slots.items()], "ext_slots": ext_slots, "variant": v})
        elif s["steps"] > 1.5 * base["steps"] + 2000:
            ctx.violation("C16/steps-grow", "logical steps grow with magnitude: %r vs %r" % (base, s),
                          {"template": u0, "slots": [[list(k), list(v2)] for k, v2 in slots.items()], "ext_slots": ext_slots, "variant": v})


def run_shard(ctx):
    pydsdl = import_pydsdl()
    mon = SymbolicMonitor(pydsdl, repo_root() / "pydsdl").install()
    rng = ctx.rng
    n = ctx.share(ctx.params["n"])
    done = 0
    while done < n and not ctx.out_of_time():
        template = make_template(rng)
        u0, slots, ext_slots = template
        # predicted enumeration for the small instantiation must be affordable for the unchanged implementation
        try:
            u = instantiate(u0, slots, ext_slots, 0)
            lay = Layout(u)
            meter = R.CostMeter(400000)
            for i in range(len(u)):
                info = lay.definition(i)
                for dv in (1, 8, 32):
                    meter.mod(info["inner_tree"], dv)
        except R.TooBig:
            ctx.cls("resampled-cost")
            continue
        done += 1
        try:
            run_case(ctx, pydsdl, mon, template, ctx.tmp)
        except (pydsdl.Error, AssertionError) as ex:
            ctx.violation("C16/exception", "%r" % (ex,), {"template": u0})
    mon.uninstall()


def replay(ctx, case):
    from pv.props.c02 import fix_universe

    pydsdl = import_pydsdl()
    mon = SymbolicMonitor(pydsdl, repo_root() / "pydsdl").install()
    u0 = fix_universe(case["template"])
    slots = {tuple(k): tuple(v) for k, v in case["slots"]}
    ext_slots = {int(k): v for k, v in case["ext_slots"].items()}
    run_case(ctx, pydsdl, mon, (u0, slots, ext_slots), ctx.tmp)
