"""C09 - versioned references resolve to exactly the named definition or fail cleanly (R-resolve + unique-id constants)."""
from __future__ import annotations

import copy
import random
import shutil

from pv.core import CaseTimeout, import_pydsdl
from pv.gen import ns as GN

TITLE = "versioned reference resolution"
RULE = (
    "namespace trees of 3-14 definitions over 1-3 root namespaces (nested namespaces, several versions per name, .dsdl and "
    ".uavcan, relative / absolute / cross-root references, plain and array-typed, diamonds and chains); every definition "
    "carries a unique PV_ID constant, so every nested composite observed through Field.data_type identifies the file it was "
    "resolved to. Each tree is read with read_namespace and with read_files for several random target subsets and orders; "
    "error shapes (missing name/version, self reference, 2- and 3-cycles, case-only difference, duplicate name+version in "
    "two lookup roots of the same name, reference to a lookup root that was not given) must be rejected with "
    "InvalidDefinitionError, also when the caller re-uses one lookup list object that earlier reads were given. Non-trivial: >=3 definitions and >=2 edges, or an error shape; distinct by graph + read order."
)
ASSUMPTIONS = ["R-resolve (pv/gen/ns.py: resolve) restates the resolution rule of the property"]
MIN_MONITORS = {"reference-resolved": 6000, "nested-equals-own-read": 6000, "read-files-order": 3000, "error-shape": 1200, "lookup-list-reused": 500, "chain-order": 100}
THOROUGH_MIN_SCALE = 10


def plan(tier):
    if tier == "quick":
        return {"shards": 16, "params": {"n": 1600, "orders": 6, "time_cap_s": 300}}
    return {"shards": 16, "params": {"n": 30000, "orders": 24, "time_cap_s": 2400}, "hard_timeout_s": 4000}


def pv_id(t):
    for c in t.constants:
        if c.name == "PV_ID":
            return int(c.value.native_value)
    return None


def element_of(pydsdl, t):
    while isinstance(t, pydsdl.ArrayType):
        t = t.element_type
    return t


def type_sig(pydsdl, t):
    return (type(t).__name__, str(t), [str(a) for a in t.attributes], None if isinstance(t, pydsdl.ServiceType) else (t.extent, t.bit_length_set.min, t.bit_length_set.max))


def check_model(ctx, pydsdl, ns, models_by_index, own_by_index, case, visible):
    """models_by_index: {def index: composite}; own_by_index: composites obtained by reading each definition 'on its own'."""
    for i, t in models_by_index.items():
        d = ns["defs"][i]
        if pv_id(t if not isinstance(t, pydsdl.ServiceType) else t.request_type) != d["id"]:
            ctx.violation("C09/wrong-file", "definition %s carries PV_ID %r, expected %d" % (t, pv_id(t), d["id"]), case)
            continue
        body = t.request_type if isinstance(t, pydsdl.ServiceType) else t
        fields = [f for f in body.fields if f.name.startswith("r")]
        if len(fields) != len(d["refs"]):
            ctx.violation("C09/fields", "%s: %d reference fields, expected %d" % (t, len(fields), len(d["refs"])), case)
            continue
        for f, r in zip(fields, d["refs"]):
            exp = GN.resolve(ns, d, r, visible)
            if exp[0] != "ok":
                ctx.violation("C09/resolved-unresolvable", "%s: reference %s resolved although %s" % (t, GN.ref_text(ns, d, r), exp[1]), case)
                continue
            ctx.mon("reference-resolved")
            nested = element_of(pydsdl, f.data_type)
            tgt = ns["defs"][exp[1]]
            if pv_id(nested) != tgt["id"]:
                ctx.violation("C09/wrong-target", "%s: reference %s resolved to PV_ID %r (%s, %s), expected %d (%s.%d.%d)" % (
                    t, GN.ref_text(ns, d, r), pv_id(nested), nested, getattr(nested, "source_file_path", "?"), tgt["id"], GN.full_name(ns, tgt), tgt["ver"][0], tgt["ver"][1]), case)
                continue
            own = own_by_index.get(exp[1])
            if own is not None:
                ctx.mon("nested-equals-own-read")
                if not (nested == own and own == nested and hash(nested) == hash(own) and type_sig(pydsdl, nested) == type_sig(pydsdl, own)):
                    ctx.violation("C09/nested-differs-from-own-read", "%s nested in %s differs from what reading it on its own yields" % (nested, t), case)


def read_root(pydsdl, base, ns, root_idx, lookup_idx):
    root = base / ns["roots"][root_idx]["dir"]
    return pydsdl.read_namespace(root, [base / ns["roots"][j]["dir"] for j in lookup_idx])


def index_models(pydsdl, ns, models, paths):
    by_path = {str(p.resolve()): i for i, p in paths.items()}
    out = {}
    for t in models:
        i = by_path.get(str(t.source_file_path.resolve()))
        if i is not None:
            out[i] = t
    return out


def run_valid(ctx, pydsdl, ns, seed, orders, workdir):
    rng = random.Random(seed)
    case = {"ns": ns, "seed": seed, "orders": orders, "shape": "valid"}
    base = workdir / "c09"
    shutil.rmtree(base, ignore_errors=True)
    try:
        paths = GN.write_namespace(ns, base)
        all_roots = list(range(len(ns["roots"])))
        own = {}
        try:
            for r in all_roots:
                lk = [j for j in all_roots if j != r]
                rng.shuffle(lk)
                models = read_root(pydsdl, base, ns, r, lk)
                found = index_models(pydsdl, ns, models, paths)
                want = {i for i, d in enumerate(ns["defs"]) if d["root"] == r}
                if set(found) != want:
                    ctx.violation("C09/namespace-content", "root %s: definitions returned %r expected %r" % (ns["roots"][r]["name"], sorted(found), sorted(want)), case)
                own.update(found)
        except pydsdl.InvalidDefinitionError as ex:
            ctx.violation("C09/valid-rejected", "valid namespace rejected: %r" % (ex,), case)
            return
        check_model(ctx, pydsdl, ns, own, own, case, set(all_roots))
        # read_files with random target subsets and orders: same types for the same files
        n = len(ns["defs"])
        for _ in range(orders):
            k = rng.randrange(1, min(n, 5) + 1)
            targets = rng.sample(range(n), k)
            roots_arg = [base / r["dir"] for r in ns["roots"]]
            rng.shuffle(roots_arg)
            ctx.mon("read-files-order")
            try:
                direct, transitive = pydsdl.read_files([paths[i] for i in targets], roots_arg)
            except pydsdl.InvalidDefinitionError as ex:
                ctx.violation("C09/valid-rejected", "read_files(%r) rejected a valid tree: %r" % (targets, ex), dict(case, targets=targets))
                continue
            got = index_models(pydsdl, ns, list(direct) + list(transitive), paths)
            check_model(ctx, pydsdl, ns, got, own, dict(case, targets=targets), set(all_roots))
            for i, t in got.items():
                o = own[i]
                if not (t == o and hash(t) == hash(o) and type_sig(pydsdl, t) == type_sig(pydsdl, o)):
                    ctx.violation("C09/order-dependent", "%s read through read_files(%r) differs from read_namespace" % (t, targets), dict(case, targets=targets))
    finally:
        shutil.rmtree(base, ignore_errors=True)


ERROR_SHAPES = ["missing-name", "missing-version", "self", "cycle2", "cycle3", "case-only", "duplicate-in-lookups", "lookup-not-given", "older-minor-only",
                "relative-in-other-namespace", "self-with-namesake", "cycle2-with-namesake", "cycle3-with-namesake", "duplicate-in-one-root", "duplicate-in-one-root", "suffix-qualified", "suffix-qualified", "version-alias", "version-alias"]


def make_error(rng, ns0, shape):
    """Returns (ns, victim index, lookup roots to pass (indices), extra roots spec) or None if not applicable."""
    ns = copy.deepcopy(ns0)
    defs = ns["defs"]
    cand = [i for i, d in enumerate(defs) if d["root"] == 0 and d["kind"] == "msg" and not any(
        GN.full_name(ns, o) == GN.full_name(ns, d) and o["ver"][0] == d["ver"][0] and o is not d and d["ver"][0] >= 1 for o in defs)]
    if not cand:
        return None
    v = rng.choice(cand)
    d = defs[v]
    lookups = list(range(1, len(ns["roots"])))
    if shape == "missing-name":
        d["refs"].append({"text": "%s.Nonexistent.1.0" % GN.namespace_of(ns, d)})
    elif shape == "missing-version":
        o = rng.choice(defs)
        vers = {tuple(x["ver"]) for x in defs if GN.full_name(ns, x) == GN.full_name(ns, o)}
        nv = (o["ver"][0], o["ver"][1] + 1)
        while nv in vers:
            nv = (nv[0], nv[1] + 1)
        if nv[1] > 255 or (GN.full_name(ns, o) == GN.full_name(ns, d)):
            return None
        d["refs"].append({"text": "%s.%d.%d" % (GN.full_name(ns, o), nv[0], nv[1])})
    elif shape == "older-minor-only":
        # X.1.3 exists, reference asks for X.1.2: must not fall back to another minor
        o = rng.choice(defs)
        if GN.full_name(ns, o) == GN.full_name(ns, d) or o["ver"][1] == 0:
            return None
        vers = {tuple(x["ver"]) for x in defs if GN.full_name(ns, x) == GN.full_name(ns, o)}
        nv = (o["ver"][0], o["ver"][1] - 1)
        if nv in vers or nv == (0, 0):
            return None
        d["refs"].append({"text": "%s.%d.%d" % (GN.full_name(ns, o), nv[0], nv[1])})
    elif shape in ("self", "self-with-namesake"):
        d["refs"].append({"text": "%s.%d.%d" % (rng.choice([GN.full_name(ns, d), d["short"]]), d["ver"][0], d["ver"][1])})
    elif shape.startswith("cycle"):
        # new definitions forming a cycle with the victim
        k = 2 if shape.startswith("cycle2") else 3
        names = ["Cyc%d" % j for j in range(k - 1)]
        new = []
        for nm in names:
            new.append({"root": 0, "ns": list(d["ns"]), "short": nm, "ver": (1, 0), "port": None, "ext": ".dsdl", "id": 90000 + len(new),
                        "refs": [], "kind": "msg", "sealed": True, "extent": None, "deprecated": False, "extra": []})
        defs.extend(new)
        chain = [v] + list(range(len(defs) - len(new), len(defs)))
        for a, b in zip(chain, chain[1:] + [chain[0]]):
            defs[a]["refs"].append({"target": b, "spell": rng.choice(["relative", "absolute"]), "array": None})
    if shape.endswith("-with-namesake"):
        # a second directory with the same root namespace name, given as a lookup, holds a definition with the same full
        # name and version as the victim: a self reference / cycle must still fail instead of resolving to the namesake
        ns["roots"].append({"dir": "namesake/" + ns["roots"][0]["name"], "name": ns["roots"][0]["name"]})
        r = len(ns["roots"]) - 1
        defs.append({"root": r, "ns": list(d["ns"]), "short": d["short"], "ver": tuple(d["ver"]), "port": None, "ext": ".dsdl", "id": 97000, "refs": [],
                     "kind": "msg", "sealed": True, "extent": None, "deprecated": False, "extra": []})
        lookups = lookups + [r]
    elif shape == "case-only":
        o = rng.choice([x for x in defs if x is not d and x["kind"] == "msg"] or [None])
        if o is None or GN.full_name(ns, o).lower() == GN.full_name(ns, d).lower():
            return None
        fn = GN.full_name(ns, o)
        alt = fn[:-1] + fn[-1].swapcase() if fn[-1].isalpha() else fn.swapcase()
        if alt == fn or any(GN.full_name(ns, x) == alt for x in defs):
            return None
        d["refs"].append({"text": "%s.%d.%d" % (alt, o["ver"][0], o["ver"][1])})
    elif shape == "duplicate-in-lookups":
        # two lookup directories with the same root name, both defining dup.X.1.0
        ns["roots"].append({"dir": "dupa/dup", "name": "dup"})
        ns["roots"].append({"dir": "dupb/dup", "name": "dup"})
        r1, r2 = len(ns["roots"]) - 2, len(ns["roots"]) - 1
        for r in (r1, r2):
            defs.append({"root": r, "ns": [], "short": "X", "ver": (1, 0), "port": None, "ext": ".dsdl", "id": 95000 + r, "refs": [],
                         "kind": "msg", "sealed": True, "extent": None, "deprecated": False, "extra": []})
        d["refs"].append({"text": "dup.X.1.0"})
        lookups = lookups + [r1, r2]
    elif shape == "duplicate-in-one-root":
        # ONE directory tree holds two files that define the same full name and version (with and without a port-ID prefix,
        # or .dsdl next to .uavcan); a reference to that type is ambiguous
        o = rng.choice([x for x in defs if x is not d and x["kind"] == "msg" and GN.full_name(ns, x) != GN.full_name(ns, d)] or [None])
        if o is None:
            return None
        twin = copy.deepcopy(o)
        twin["id"] = 98000
        twin["refs"] = []
        if rng.random() < 0.5 and o["ext"] == ".dsdl":
            twin["ext"] = ".uavcan"
        else:
            twin["port"] = 7123 if o.get("port") is None else None
        defs.append(twin)
        d["refs"].append({"text": "%s.%d.%d" % (GN.full_name(ns, o), o["ver"][0], o["ver"][1])})
        if o["root"] != 0 and o["root"] not in lookups:
            return None
    elif shape == "lookup-not-given":
        if len(ns["roots"]) < 2:
            return None
        o = [i for i, x in enumerate(defs) if x["root"] != 0 and x["kind"] == "msg"]
        if not o:
            return None
        t = defs[rng.choice(o)]
        d["refs"].append({"target": defs.index(t), "spell": "absolute", "array": None})
        lookups = [j for j in lookups if j != t["root"]]
        if any(GN.full_name(ns, x) == GN.full_name(ns, t) and tuple(x["ver"]) == tuple(t["ver"]) and x["root"] in [0] + lookups for x in defs):
            return None
        # other references into the withheld root would fail too, which is fine: the tree must be rejected
    elif shape == "version-alias":
        # version numbers of a reference that no definition can have (> 255) but that equal an existing version modulo 256 or
        # after packing major and minor into one number: exactly M.m means the numbers, not some key derived from them
        o = rng.choice([x for x in defs if x is not d and x["kind"] == "msg"] or [None])
        if o is None or GN.full_name(ns, o) == GN.full_name(ns, d):
            return None
        M, m = o["ver"]
        nv = rng.choice([(M, m + 256), (M, m + 512), (M + 256, m), (M - 1, m + 256) if M > 0 else (M, m + 256), (M + 1, m - 256 + 512) if m < 256 else (M, m + 256),
                         (0, (M << 8) | m) if M > 0 else (M, m + 65536), (M, m + 65536)])
        if any(GN.full_name(ns, x) == GN.full_name(ns, o) and tuple(x["ver"]) == tuple(nv) for x in defs):
            return None
        d["refs"].append({"text": "%s.%d.%d" % (GN.full_name(ns, o), nv[0], nv[1])})
    elif shape == "suffix-qualified":
        # a dotted name is absolute: an existing type named without its leading component(s) - as if the name were relative to the
        # root or to a parent namespace, preferably one the referrer itself lives in - does not exist under that name
        pool = [x for x in defs if x is not d and x["kind"] == "msg" and len(x["ns"]) >= 1]
        pref = [x for x in pool if x["root"] == d["root"] and d["ns"] and x["ns"][:1] == d["ns"][:1]]
        o = rng.choice(pref or pool or [None])
        if o is None:
            return None
        comps = GN.full_name(ns, o).split(".")
        alt = ".".join(comps[rng.randrange(1, len(comps) - 1):])
        if any(GN.full_name(ns, x).lower() == alt.lower() for x in defs):
            return None
        d["refs"].append({"text": "%s.%d.%d" % (alt, o["ver"][0], o["ver"][1])})
    elif shape == "relative-in-other-namespace":
        # a dot-less name is relative to the referrer's own namespace: a type that only exists elsewhere must not be found
        o = [x for x in defs if GN.namespace_of(ns, x) != GN.namespace_of(ns, d) and x["kind"] == "msg"
             and not any(y["short"].lower() == x["short"].lower() and GN.namespace_of(ns, y).lower() == GN.namespace_of(ns, d).lower() for y in defs)]
        if not o:
            return None
        t = rng.choice(o)
        d["refs"].append({"text": "%s.%d.%d" % (t["short"], t["ver"][0], t["ver"][1])})
    return ns, v, lookups


def run_error(ctx, pydsdl, ns0, seed, workdir):
    rng = random.Random(seed)
    shape = rng.choice(ERROR_SHAPES)
    made = make_error(rng, ns0, shape)
    if made is None:
        return None
    ns, v, lookups = made
    case = {"ns": ns, "seed": seed, "shape": shape, "lookups": lookups, "ns0": ns0}
    base = workdir / "c09"
    shutil.rmtree(base, ignore_errors=True)
    ctx.mon("error-shape")
    try:
        paths = GN.write_namespace(ns, base)
        api = rng.choice(["read_namespace", "read_files"])
        lookup_arg = [base / ns["roots"][j]["dir"] for j in lookups]
        if rng.random() < 0.3:
            lookup_arg = [str(x) for x in lookup_arg]
        if rng.random() < 0.5:
            # history: the caller keeps ONE lookup list and has used it for reading the other root namespaces before (whatever came of
            # those calls); what this call may see is still its own target plus the lookups it is given
            ctx.mon("lookup-list-reused")
            for r in rng.sample(range(1, len(ns["roots"])), len(ns["roots"]) - 1):
                try:
                    if rng.random() < 0.5:
                        pydsdl.read_namespace(base / ns["roots"][r]["dir"], lookup_arg)
                    else:
                        mine = [paths[i] for i, x in enumerate(ns["defs"]) if x["root"] == r]
                        if mine:
                            pydsdl.read_files(rng.sample(mine, 1), [base / ns["roots"][r]["dir"]], lookup_arg)
                except pydsdl.InvalidDefinitionError:
                    pass
        try:
            if api == "read_namespace":
                pydsdl.read_namespace(base / ns["roots"][0]["dir"], lookup_arg)
            else:
                pydsdl.read_files([paths[v]], [base / ns["roots"][0]["dir"]], lookup_arg)
            ctx.violation("C09/error-shape-accepted", "%s: tree with error shape %s was accepted" % (api, shape), case)
        except pydsdl.InvalidDefinitionError:
            pass
        except pydsdl.Error as ex:
            ctx.violation("C09/error-shape-wrong-exception", "%s: %r" % (shape, ex), case)
        except RecursionError as ex:
            ctx.violation("C09/non-termination", "%s: %r" % (shape, ex), case)
    finally:
        shutil.rmtree(base, ignore_errors=True)
    return shape


CHAIN_FORMS = ["{n} f", "{n}[<=2] f", "uint8 C = {n}.K", "@assert {n}.K == 1", "uint8[<=({n}.K + 1) * 2] f", "@assert ((({n}.K == 1)))", "@assert (((((({n}.K == 1))))))"]


def chain_depth_experiment(ctx, pydsdl, rng, workdir):
    """
    A valid acyclic chain T0 -> T1 -> ... -> Tn (each definition refers to the next one in a field type, an array, a constant or an
    @assert, possibly inside parentheses) read with the head sorting first (every definition is first reached through its referrer,
    nested n deep) and with the leaf sorting first (every reference finds a definition that was read before): the outcome and the
    types must be the same - "no matter in which order, through which referrer or how many times it is reached".
    """
    n = rng.choice([6, 8, 10, 12, 16, 20, 25, 30, 40, 60])
    form = rng.choice(CHAIN_FORMS)
    base = workdir / "c09chain"
    outcomes = {}
    case = {"chain_depth": n, "form": form}
    try:
        for order in ("head-first", "leaf-first"):
            shutil.rmtree(base, ignore_errors=True)
            (base / "ns").mkdir(parents=True)
            name = (lambda i: "T%04d" % i) if order == "head-first" else (lambda i: "T%04d" % (9000 - i))
            for i in range(n + 1):
                body = ["uint8 K = 1"] + ([form.replace("{n}", "ns.%s.1.0" % name(i + 1))] if i < n else ["uint8 x"]) + ["@sealed"]
                (base / "ns" / ("%s.1.0.dsdl" % name(i))).write_text("\n".join(body) + "\n")
            ctx.mon("chain-order")
            import sys
            limit = sys.getrecursionlimit()
            sys.setrecursionlimit(1000)   # the interpreter's default (the shard processes of the harness run with a larger one)
            try:
                res = pydsdl.read_namespace(base / "ns", [])
                outcomes[order] = ("ok", sorted((int(t.short_name[1:]) if order == "head-first" else 9000 - int(t.short_name[1:]), [str(a).replace(t.full_namespace, "") for a in t.attributes][-1][:6],
                                                 t.extent) for t in res))
            except pydsdl.InvalidDefinitionError as ex:
                outcomes[order] = ("rejected", type(ex).__name__, "nested too deeply" in str(ex))
            finally:
                sys.setrecursionlimit(limit)
        ctx.case(("chain-depth", n, form), True, classes=["chain-order-pair", "chain-depth-%s" % ("<=12" if n <= 12 else "<=30" if n <= 30 else ">30")])
        a, b = outcomes["head-first"], outcomes["leaf-first"]
        if a != b:
            stack = any(o[0] == "rejected" and o[1] == "DSDLSyntaxError" and o[2] for o in (a, b))
            ctx.violation("C09/order-dependent/dependency-depth" if stack else "C09/order-dependent",
                          "a valid chain of %d definitions linked by `%s`: head first -> %s, leaf first -> %s" % (n + 1, form, str(a)[:120], str(b)[:120]), case)
        elif a[0] != "ok":
            stack = a[1] == "DSDLSyntaxError" and a[2]
            ctx.violation("C09/valid-rejected/dependency-depth" if stack else "C09/valid-rejected", "a valid chain of %d definitions linked by `%s` is rejected in either order: %s" % (n + 1, form, a), case)
    finally:
        shutil.rmtree(base, ignore_errors=True)


def run_shard(ctx):
    pydsdl = import_pydsdl()
    for i in range(ctx.share(ctx.params["n"])):
        if ctx.out_of_time():
            break
        if i % 12 == 0:
            try:
                chain_depth_experiment(ctx, pydsdl, ctx.rng, ctx.tmp)
            except Exception as ex:  # noqa
                ctx.violation("C09/foreign-exception", "reading a valid chain of definitions raised %r" % (ex,), {"chain_experiment": True})
        seed = ctx.rng.randrange(1 << 40)
        ns = GN.gen_namespace(random.Random(seed))
        edges = sum(len(d["refs"]) for d in ns["defs"])
        try:
            with ctx.watchdog(120):
                run_valid(ctx, pydsdl, ns, seed, ctx.params["orders"], ctx.tmp)
            ctx.case((GN.signature(ns), "valid"), len(ns["defs"]) >= 3 and edges >= 2, classes=["valid", "roots-%d" % len(ns["roots"])],
                     sample={"files": {str(GN.rel_path(ns, d)): GN.render_def(ns, d) for d in ns["defs"][:6]}} if i < 2 else None)
            for _ in range(2):
                with ctx.watchdog(120):
                    shape = run_error(ctx, pydsdl, ns, ctx.rng.randrange(1 << 40), ctx.tmp)
                if shape:
                    ctx.case((GN.signature(ns), shape, ctx.evaluations), True, classes=["shape-" + shape])
        except CaseTimeout:
            ctx.violation("C09/non-termination", "reading did not finish within the watchdog (cycle?)", {"ns": ns, "seed": seed})


def replay(ctx, case):
    pydsdl = import_pydsdl()
    ns = case["ns"]
    for d in ns["defs"]:
        d["ver"] = tuple(d["ver"])
        for r in d["refs"]:
            if r.get("array"):
                r["array"] = tuple(r["array"])
    if "chain_depth" in case:
        class _R:
            def __init__(self, n, form):
                self.v = [n, form]
            def choice(self, pool):
                return self.v.pop(0)
        chain_depth_experiment(ctx, pydsdl, _R(case["chain_depth"], case["form"]), ctx.tmp)
    elif "ns0" in case:
        ns0 = case["ns0"]
        for d in ns0["defs"]:
            d["ver"] = tuple(d["ver"])
            for r in d["refs"]:
                if r.get("array"):
                    r["array"] = tuple(r["array"])
        print("shape replayed:", run_error(ctx, pydsdl, ns0, case["seed"], ctx.tmp))
    elif case.get("shape", "valid") == "valid":
        run_valid(ctx, pydsdl, ns, case["seed"], case.get("orders", 6), ctx.tmp)
    else:
        base = ctx.tmp / "c09"
        paths = GN.write_namespace(ns, base)
        try:
            read_root(pydsdl, base, ns, 0, case["lookups"])
            ctx.violation("C09/error-shape-accepted", "accepted", case)
        except pydsdl.InvalidDefinitionError as ex:
            print("rejected:", repr(ex))
