"""C07 - deserialization is total; implicit truncation / zero extension (R-codec decoder + M-bitio reader shadow)."""
from __future__ import annotations

import hashlib
import random
import shutil

from pv.core import CaseTimeout, import_pydsdl
from pv.gen import types as GT
from pv.gen import values as GV
from pv.mon.bitio import BitIO
from pv.ref import codec as RC

TITLE = "deserialization totality / truncation / zero extension"
RULE = (
    "serdes-sized universes x byte strings: random bytes of lengths 0..max+1, prefixes of valid representations, "
    "single-bit corruptions, representations followed by junk or zeros; with and without the top-level delimiter "
    "header. Each outcome (value or rejection kind) is compared with the R-codec decoder; returned objects must be "
    "valid and a fixed point of serialize/deserialize; b and b+zeros must decode alike unless b is rejected for its "
    "delimiter header; every read_bits of the real reader is compared with a reference extraction bounded by the "
    "enclosing sub-readers. Non-trivial: byte string is not all-zero and not a pristine representation; distinct by "
    "(universe, type, header flag, bytes)."
)
ASSUMPTIONS = [
    "R-codec decoder is the trusted reference for accept/reject and for the decoded value",
    "capacities are serdes-sized (<= 300): hostile length prefixes of huge arrays are a resource question, not this property",
]
MIN_MONITORS = {"buffer-forms": 20000, "outcome": 60000, "fixed-point": 15000, "truncation": 4000, "zero-extension": 30000,
                "bitio-read": 1000000, "bitio-subreader": 10000, "reject-array-length": 300, "reject-union-tag": 300,
                "reject-delimiter-header": 300, "result-mutated": 5000}
THOROUGH_MIN_SCALE = 8


def plan(tier):
    if tier == "quick":
        return {"shards": 16, "params": {"n": 2400, "reps": 2, "n_random": 10, "n_prefix": 8, "n_flip": 10, "time_cap_s": 240}}
    return {"shards": 16, "params": {"n": 32000, "reps": 3, "n_random": 24, "n_prefix": 16, "n_flip": 24, "time_cap_s": 1500},
            "hard_timeout_s": 3000}


def outcome_impl(pydsdl, T, b, header):
    """('ok', value) | ('reject', class name, is_delimiter_header_error) | ('foreign', repr)"""
    try:
        return ("ok", pydsdl.deserialize(T, b, with_delimiter_header=header))
    except pydsdl.SerDesError as ex:
        return ("reject", type(ex).__name__)
    except ValueError as ex:
        return ("reject", "ValueError:" + type(ex).__name__)
    except Exception as ex:  # noqa
        return ("foreign", "%s: %s" % (type(ex).__name__, ex))


def outcome_ref(cd, idx, b, header):
    try:
        return ("ok", cd.decode(idx, b, with_header=header))
    except RC.Reject as ex:
        return ("reject", ex.kind)


EXPECTED_CLASS = {"array-length": "ArrayLengthError", "union-tag": "UnionTagError",
                  "delimiter-header": "DelimiterHeaderError", "utf8": "ValueError:UnicodeDecodeError"}


def same_outcome(a, b):
    if a[0] != b[0]:
        return False
    if a[0] == "ok":
        return RC.same_value(a[1], b[1])
    return a[1] == b[1]


def check_bytes(ctx, pydsdl, cd, T, idx, b, header, kind, case):
    case = dict(case, bytes=b, header=header, kind=kind)
    ctx.mon("outcome")
    oi = outcome_impl(pydsdl, T, b, header)
    orf = outcome_ref(cd, idx, b, header)
    if oi[0] == "foreign":
        ctx.violation("C07/foreign-exception", "deserialize(%s, %s) raised %s" % (T, b.hex(), oi[1]), case)
        return oi
    if orf[0] == "ok":
        if oi[0] != "ok":
            ctx.violation("C07/spurious-reject", "deserialize(%s, %s) raised %s, reference decodes %r" % (T, b.hex(), oi[1], orf[1]), case)
            return oi
        if not RC.same_value(oi[1], orf[1]):
            ctx.violation("C07/value", "deserialize(%s, %s) = %r, reference %r" % (T, b.hex(), oi[1], orf[1]), case)
            return oi
    else:
        ctx.mon("reject-" + orf[1])
        if oi[0] == "ok":
            ctx.violation("C07/not-rejected", "deserialize(%s, %s) returned %r, reference rejects (%s)" % (T, b.hex(), oi[1], orf[1]), case)
            return oi
        if oi[1] != EXPECTED_CLASS[orf[1]]:
            ctx.violation("C07/reject-class", "deserialize(%s, %s) raised %s, expected %s" % (T, b.hex(), oi[1], EXPECTED_CLASS[orf[1]]), case)
    if oi[0] == "ok":
        ctx.mon("fixed-point")
        obj = oi[1]
        if not cd.valid_composite(idx, obj):
            ctx.violation("C07/invalid-object", "deserialize(%s, %s) returned an object that is not valid for the type: %r" % (T, b.hex(), obj), case)
        else:
            try:
                b2 = pydsdl.serialize(T, obj, with_delimiter_header=header)
                obj2 = pydsdl.deserialize(T, b2, with_delimiter_header=header)
                if not RC.same_value(obj, obj2):
                    ctx.violation("C07/not-fixed-point", "%r -> %s -> %r" % (obj, b2.hex(), obj2), case)
            except Exception as ex:  # noqa
                ctx.violation("C07/not-fixed-point", "re-serializing %r failed: %r" % (obj, ex), case)
    if oi[0] == "ok" and (len(b) + sum(b[:4])) % 4 == 0:
        # the caller changes the returned object in place; decoding the same bytes again gives what it gave before
        import copy

        ctx.mon("result-mutated")
        snap = copy.deepcopy(oi[1])
        GV.scramble(oi[1], random.Random(len(b)))
        oi = ("ok", snap)
        again = outcome_impl(pydsdl, T, b, header)
        if not same_outcome(oi, again):
            ctx.violation("C07/state-after-mutation", "deserialize(%s, %s) gave %r, and after the caller changed that object in place it gives %r" % (T, b.hex(), snap, again), case)
    # the same bytes in another buffer type, and as a window into a larger buffer whose surroundings are not part of b
    junk = hashlib.sha256(b).digest()
    ctx.mon("buffer-forms")
    for form, data in (("bytearray", bytearray(b)), ("memoryview", memoryview(b)),
                       ("memoryview-window", memoryview(junk[:5] + b + junk[5:])[5:5 + len(b)]),
                       ("memoryview-window-of-bytearray", memoryview(bytearray(b"\xff" * 3 + b + b"\xff" * 9))[3:3 + len(b)])):
        ob = outcome_impl(pydsdl, T, data, header)
        if not same_outcome(oi, ob):
            ctx.violation("C07/buffer-form", "deserialize(%s, %s) gives %r for bytes but %r for the same bytes as %s" % (T, b.hex(), oi, ob, form), case)
            break
    # zero extension
    for k in (1, 7, 64):
        ctx.mon("zero-extension")
        oz = outcome_impl(pydsdl, T, b + bytes(k), header)
        if oi[0] == "reject" and oi[1] == "DelimiterHeaderError":
            ctx.cls("zero-ext-exempt")
            break  # the one exception the statement allows
        if not same_outcome(oi, oz):
            ctx.violation("C07/zero-extension", "deserialize(%s): %s -> %r but +%d zero bytes -> %r" % (T, b.hex(), oi, k, oz), case)
            break
    return oi


def run_case(ctx, pydsdl, mon, u, text_ok, seed, workdir, p):
    case = {"universe": u, "text_ok": text_ok, "seed": seed, "p": p}
    mon.bind(ctx, case)
    rng = random.Random(seed)
    if text_ok:
        d = workdir / "t"
        try:
            objs = GT.read_universe(pydsdl, u, d, random.Random(seed))
        finally:
            shutil.rmtree(d, ignore_errors=True)
    else:
        objs = GT.construct_universe(pydsdl, u)
    if seed % 4 == 0:
        objs = GT.with_service_sections(pydsdl, u, objs, seed)
        ctx.cls("service-sections")
    cd = RC.Codec(u)
    idx = len(u) - 1 if rng.random() < 0.7 else rng.randrange(len(u))
    if GV.fixed_elements(cd, ("ref", idx)) > 2000:
        ctx.cls("skipped-large-fixed")
        return
    T = objs[idx]
    case["idx"] = idx
    headers = [False] + ([True] if not u[idx]["sealed"] else [])
    for header in headers:
        for ri in range(p["reps"]):
            cv = GV.gen_composite(rng, cd, idx, [rng.choice([3, 10, 40])])
            rep = cd.encode(idx, cv, with_header=header)
            # implicit truncation: anything after a complete representation is ignored
            ctx.mon("truncation")
            base = outcome_impl(pydsdl, T, rep, header)
            if base[0] != "ok" or not RC.same_value(base[1], cv):
                ctx.violation("C07/value", "pristine representation %s of %r decodes to %r" % (rep.hex(), cv, base), dict(case, bytes=rep, header=header))
                continue
            for _ in range(3):
                junk = bytes(rng.getrandbits(8) for _ in range(rng.choice([1, 2, 5, 17])))
                oj = outcome_impl(pydsdl, T, rep + junk, header)
                ctx.mon("truncation")
                if not same_outcome(base, oj):
                    ctx.violation("C07/truncation", "%s: %s + junk %s decodes to %r instead of %r" % (T, rep.hex(), junk.hex(), oj, base),
                                  dict(case, bytes=rep + junk, header=header))
            mx = max(len(rep) + 2, 4)
            for kind, b in GV.gen_bytes_variants(rng, rep, mx, p["n_random"], p["n_prefix"], p["n_flip"]):
                check_bytes(ctx, pydsdl, cd, T, idx, b, header, kind, case)
                nt = any(b) and b != rep
                ctx.case((GT.universe_sig(u), idx, header, b), nt, classes=["bytes-" + kind, "header" if header else "no-header"])


def run_shard(ctx):
    pydsdl = import_pydsdl()
    mon = BitIO(pydsdl).install()
    rng = ctx.rng
    n = ctx.share(ctx.params["n"])
    for i in range(n):
        if ctx.out_of_time():
            break
        text_ok = rng.random() < 0.2
        u = GT.gen_universe(rng, small=True, text_ok=text_ok, max_fields=5, consts=True)
        seed = rng.randrange(1 << 30)
        try:
            with ctx.watchdog(120):
                run_case(ctx, pydsdl, mon, u, text_ok, seed, ctx.tmp, ctx.params)
        except CaseTimeout:
            ctx.inconclusive_case("watchdog", {"universe": u})
        except (pydsdl.Error, ValueError, TypeError, KeyError, IndexError, AssertionError) as ex:
            ctx.violation("C07/exception", "%r" % (ex,), {"universe": u, "text_ok": text_ok, "seed": seed, "p": ctx.params})
        if i < 2:
            ctx.samples.append({"definitions": [GT.render_def(d, u) for d in u]})


def replay(ctx, case):
    from pv.props.c02 import fix_universe

    pydsdl = import_pydsdl()
    mon = BitIO(pydsdl).install()
    u = fix_universe(case["universe"])
    run_case(ctx, pydsdl, mon, u, case["text_ok"], case["seed"], ctx.tmp, case["p"])
