"""C17 - errors and @print output are attributed to the right file and line (M-tax + M-print)."""
from __future__ import annotations

import random
import shutil

from pv.core import CaseTimeout, import_pydsdl

TITLE = "error / @print attribution"
RULE = (
    "namespaces with a reference chain of 1-4 definitions; exactly one definition carries either one fault (24 kinds over "
    "the categories syntax, undefined identifier/type/attribute, failed @assert, bad operands, invalid field/constant/"
    "padding declaration, bad directive use) or 1-3 uniquely tagged @print directives, at a random line among random "
    "blank lines, comment lines, valid statements and statements containing multi-line string literals, LF or CRLF; the "
    "definition is a target or a dependency at depth 1-3, read first as a target or first as a dependency, through "
    "read_namespace or read_files. Oracles: Error.path = the faulty file, Error.line (if reported) within the line span of "
    "the faulty statement; every evaluation of a @print (recorded at the real directive handler) is delivered exactly once "
    "with the path and line of that directive. Non-trivial: fault/print not on line 1 and >=1 blank/comment line around "
    "it; distinct by (fault kind, line layout, depth, read order, API)."
)
ASSUMPTIONS = [
    "errors raised when a definition is finalized (union arity, name collisions, extent, missing @sealed/@extent) carry no "
    "line: only their path is checked",
]
MIN_MONITORS = {"fault-path": 3500, "fault-line": 3000, "print-evaluation": 2500, "print-delivery": 2500}
THOROUGH_MIN_SCALE = 10


def plan(tier):
    if tier == "quick":
        return {"shards": 16, "params": {"n": 9600, "time_cap_s": 300}}
    return {"shards": 16, "params": {"n": 160000, "time_cap_s": 2400}, "hard_timeout_s": 4000}


# (kind, statement lines, line-carrying?) - the statement may span several lines (multi-line string literal)
FAULTS = [
    ("syntax-field", ["uint8 1a"], True), ("syntax-paren", ["@print ("], True), ("syntax-bracket", ["uint8[ a"], True),
    ("syntax-garbage", ["$$$"], True),
    ("undefined-identifier", ["@print NOPE"], True), ("undefined-type", ["{root}.Nope.1.0 x"], True),
    ("undefined-attribute", ["@print {1}.size"], True), ("undefined-version", ["{root}.{self}.9.9 x"], True),
    ("assert-false", ["@assert false"], True), ("assert-compare", ["@assert 1 == 2"], True), ("assert-nonbool", ["@assert 1"], True),
    ("bad-operands-type", ["@print 1 + true"], True), ("bad-operands-div0", ["@print 1 / 0"], True),
    ("bad-operands-multiline", ["@print 'a", "b' + 1"], True),
    ("invalid-field-width", ["uint65 x"], True), ("invalid-field-capacity", ["uint8[0] x"], True), ("invalid-field-int1", ["int1 x"], True),
    ("invalid-field-name", ["uint8 optional"], True), ("invalid-constant-range", ["uint8 X = 1000"], True),
    ("invalid-constant-kind", ["bool B = 1"], True), ("invalid-padding", ["void65"], True),
    ("bad-directive-unknown", ["@foo"], True), ("bad-directive-operand", ["@union 1"], True), ("bad-directive-dup", ["@deprecated", "@deprecated"], True),
    ("duplicate-attribute", ["uint8 dup", "uint8 dup"], False),
    # the name of an existing definition spelled with another letter case: the mistake is in the referring statement
    # a type that cannot be a field type at all; a later statement that needs the layout must not take the blame
    ("service-typed-field", ["{root}.Svc.1.0 svcfield"], True),
    ("case-only-reference", ["{root}.{othercase}.1.0 wrongcase"], True), ("case-only-reference-in-expression", ["@print {root}.{othercase}.1.0._extent_"], True),
]

FILLERS = ["", "", "   ", "# comment", "@assert _offset_.count >= 1", "@assert _offset_.min >= 0  # needs the layout of everything before it", "#", "# @assert false", "uint8 f{n}", "bool g{n}", "void3", "int16 C{n} = -5", "@assert true",
           "@assert 'multi\nline' != ''", "@assert \"a\n\nb\" != 'x'", "uint8[<=3] h{n}  # trailing", "float32 k{n}",
           # escaped line feeds occupy no line of the file
           # characters that str.splitlines() treats as line boundaries but DSDL does not (only LF / CRLF end a line)
           "# page break \x0c here", "# vt \x0b fs \x1c gs \x1d rs \x1e", "# nel \x85 ls \u2028 ps \u2029 done", "uint8 s{n} # \x0c\x0c",
           "@assert 'a\x0cb' != ''", "@assert \"u\u2028v\u2029w\" != '' # \x85", "@assert 'x\x1cy\x1dz\x1e' != ''  # \x0b",
           "@assert 'esc\\naped' != ''", "@assert \"two\\n\\u000Aescapes\" != '' # \\n in a comment too", "@assert '\\U0000000a' + '\\r' != ''"]


def build_text(rng, special_lines, refs, crlf, n_before=None, service=False):
    """
    Returns (text, start_line_of_special, line_count_of_special).  special_lines: list of physical lines (a statement may
    itself contain raw newlines: count them).  refs: statements that reference the next definition in the chain.
    """
    lines = []
    n = [0]

    def filler():
        n[0] += 1
        return rng.choice(FILLERS).replace("{n}", str(n[0]))

    before = rng.randrange(0, 9) if n_before is None else n_before
    for _ in range(before):
        lines.append(filler())
    ref_at = rng.randrange(len(lines) + 1)
    for r in refs:
        lines.insert(ref_at, r)
    if service:
        # the special statement sits in the response section of a service definition
        lines += ["@sealed", "---" + "-" * rng.randrange(0, 3)]
        for _ in range(rng.randrange(0, 4)):
            lines.append(filler())
    text_before = "\n".join(lines)
    start = text_before.count("\n") + (2 if lines else 1)
    body = list(lines) + list(special_lines)
    for _ in range(rng.randrange(0, 6)):
        body.append(filler())
    body.append("@sealed")
    if rng.random() < 0.5:
        body.append(filler() if rng.random() < 0.5 else "")
    text = "\n".join(body) + ("\n" if rng.random() < 0.7 else "")
    span = "\n".join(special_lines).count("\n") + 1
    if crlf == "cr":
        text = text.replace("\n", "\r")  # bare CR (classic Mac OS) ends a line, too
    elif crlf == "mixed":
        out = []
        for i, ch in enumerate(text):
            if ch != "\n":
                out.append(ch)
                continue
            style = rng.choice(["\n", "\r\n", "\r"])
            if style == "\r" and text[i + 1:i + 2] == "\n":
                style = "\n"  # a bare CR directly before another line break would read as one CRLF
            out.append(style)
        text = "".join(out)
    elif crlf:
        text = text.replace("\n", "\r\n")
    return text, start, span


def gen_case(rng):
    depth = rng.choice([0, 0, 1, 1, 2, 3])  # position of the special definition in the chain D0 -> D1 -> ...
    chain_len = depth + 1 + rng.choice([0, 0, 1])
    first_as_target = rng.random() < 0.5
    # names: read_namespace reads targets in name order. If the special definition sorts first it is read as a target
    # first; if it sorts last it is first reached as a dependency of an earlier target.
    names = []
    for i in range(chain_len):
        if i == depth:
            names.append("Aaa" if first_as_target else "Zzz")
        else:
            names.append("M%d" % i)
    mode = rng.choice(["fault", "fault", "print"])
    api = rng.choice(["read_namespace", "read_namespace", "read_files"])
    crlf = rng.choice([False, False, False, False, False, True, True, True, "cr", "mixed"])
    root = "rt"
    files = {}
    special = {}
    for i, nm in enumerate(names):
        refs = ["%s.%s.1.0 next%d" % (root, names[i + 1], i)] if i + 1 < chain_len else []
        if i == depth:
            if mode == "fault":
                kind, stmts, has_line = rng.choice(FAULTS)
                other = rng.choice([x for x in names if x != nm] or [nm])
                stmts = [s.replace("{root}", root).replace("{self}", nm).replace("{othercase}", other.swapcase()) for s in stmts]
                svc = depth == 0 and rng.random() < 0.25
                text, start, span = build_text(rng, stmts, refs, crlf, service=svc)
                special = {"mode": "fault", "kind": kind + ("-in-response" if svc else ""), "start": start, "span": span, "has_line": has_line, "file": nm}
            else:
                k = rng.choice([1, 2, 3])
                tags = [rng.randrange(10 ** 6, 10 ** 7) for _ in range(k)]
                stmts = []
                for t in tags:
                    stmts.append(rng.choice(["@print %d", "@print   %d + 0", "@print %d # remark"]) % t)
                    if rng.random() < 0.4:
                        stmts.append(rng.choice(["", "# c", "uint8 p%d" % t]))
                text, start, span = build_text(rng, stmts, refs, crlf, service=(depth == 0 and rng.random() < 0.25))
                # line of every tag
                plain = text.replace("\r\n", "\n").replace("\r", "\n").split("\n")
                where = {}
                for t in tags:
                    for li, ln in enumerate(plain, 1):
                        if ln.startswith("@print") and str(t) in ln:
                            where[str(t)] = li
                special = {"mode": "print", "tags": where, "file": nm, "kind": "print"}
        else:
            text, _, _ = build_text(rng, [], refs, crlf and rng.random() < 0.5)
        files["%s/%s.1.0.dsdl" % (root, nm)] = text
    files["%s/Svc.1.0.dsdl" % root] = "uint8 a\n@sealed\n---\nuint8 b\n@sealed\n"
    return {"files": files, "root": root, "names": names, "depth": depth, "special": special, "api": api,
            "first_as_target": first_as_target, "crlf": crlf}


class PrintProbe:
    """Records every evaluation of a print directive at the real handler inside the builder."""

    def __init__(self, pydsdl):
        self.dtb = __import__("pydsdl._data_type_builder", fromlist=["x"]).DataTypeBuilder
        self.orig = self.dtb.__dict__["_on_print_directive"]
        self.evaluations = []
        probe = self

        def _on_print_directive(self_, line_number, value):
            probe.evaluations.append((str(self_._definition.file_path), line_number, str(value if value is not None else "")))
            return probe.orig(self_, line_number, value)

        self.dtb._on_print_directive = _on_print_directive


def run_case(ctx, pydsdl, probe, case, workdir):
    base = workdir / "c17"
    shutil.rmtree(base, ignore_errors=True)
    paths = {}
    for rel, text in case["files"].items():
        p = base / rel
        p.parent.mkdir(parents=True, exist_ok=True)
        p.write_bytes(text.encode("utf-8"))
        paths[rel.split("/")[-1].split(".")[0]] = p.resolve()
    root = base / case["root"]
    sp = case["special"]
    deliveries = []
    probe.evaluations.clear()
    handler = lambda p, l, t: deliveries.append((str(type(root)(p).resolve()), l, t))  # noqa
    err = None
    try:
        if case["api"] == "read_files":
            pydsdl.read_files([paths[case["names"][0]]], [root], print_output_handler=handler)
        else:
            pydsdl.read_namespace(root, [], print_output_handler=handler)
    except pydsdl.Error as ex:
        err = ex
    finally:
        shutil.rmtree(base, ignore_errors=True)
    special_path = str(paths[sp["file"]])
    if sp["mode"] == "fault":
        ctx.mon("fault-path")
        if err is None:
            ctx.violation("C17/fault-not-reported", "fault %s was not reported" % sp["kind"], case)
            return
        if not isinstance(err, pydsdl.InvalidDefinitionError):
            ctx.violation("C17/fault-class", "fault %s raised %r" % (sp["kind"], err), case)
            return
        got_path = str(type(root)(err.path).resolve()) if err.path else None
        if got_path != special_path:
            ctx.violation("C17/error-path", "fault %s in %s is reported with path %s (%s)" % (sp["kind"], sp["file"], err.path, type(err).__name__), case)
        if err.line is not None:
            ctx.mon("fault-line")
            if not (sp["start"] <= err.line <= sp["start"] + sp["span"] - 1):
                text = case["files"]["%s/%s.1.0.dsdl" % (case["root"], sp["file"])].replace("\r\n", "\n")
                before = "\n".join(text.split("\n")[: sp["start"] - 1])
                if sp["kind"].startswith("invalid-") and err.line > sp["start"]:
                    mech = "C17/error-line/attribute-reported-at-later-statement"
                elif not sp["has_line"]:
                    mech = "C17/error-line/line-of-referring-file"
                elif err.line < sp["start"] and ("'multi\nline'" in before or '"a\n\nb"' in before):
                    mech = "C17/error-line/newline-in-string-literal"
                else:
                    mech = "C17/error-line/other"
                ctx.violation(mech, "fault %s (%s) on line %d..%d of %s is reported on line %d" % (
                    sp["kind"], type(err).__name__, sp["start"], sp["start"] + sp["span"] - 1, sp["file"], err.line), case)
        elif sp["has_line"]:
            ctx.violation("C17/error-line-missing", "fault %s on line %d is reported without a line (%s)" % (sp["kind"], sp["start"], type(err).__name__), case)
        if err.line is not None and err.path is None:
            ctx.violation("C17/line-without-path", "line without path", case)
    else:
        if err is not None:
            ctx.violation("C17/valid-rejected", "definition with @print directives rejected: %r" % (err,), case)
            return
        evs = list(probe.evaluations)
        # every evaluation is delivered exactly once with its own path and line
        remaining = list(deliveries)
        for (epath, eline, etext) in evs:
            ctx.mon("print-evaluation")
            match = [d for d in remaining if d[2] == etext]
            if not match:
                ctx.violation("C17/print-not-delivered", "evaluation of @print at %s:%d (%s) was not delivered" % (epath, eline, etext), case)
                continue
            d = match[0]
            remaining.remove(d)
            rp = str(type(root)(epath).resolve())
            if d[0] != rp or d[1] != eline:
                ctx.violation("C17/print-path" if d[0] != rp else "C17/print-line",
                              "@print %s evaluated at %s:%d was delivered as %s:%d" % (etext, rp, eline, d[0], d[1]), case)
        for d in remaining:
            ctx.violation("C17/print-spurious-delivery", "delivery %r without a matching evaluation" % (d,), case)
        # and the evaluations themselves sit on the directive's true line of the right file
        for tag, line in sp["tags"].items():
            ctx.mon("print-delivery")
            mine = [e for e in evs if tag in e[2]]
            if not mine:
                ctx.violation("C17/print-not-evaluated", "@print %s on line %d of %s was never evaluated" % (tag, line, sp["file"]), case)
            for e in mine:
                if str(type(root)(e[0]).resolve()) != special_path or e[1] != line:
                    ctx.violation("C17/print-line", "@print %s is on line %d of %s but is reported as %s:%d" % (tag, line, sp["file"], e[0], e[1]), case)


def run_shard(ctx):
    pydsdl = import_pydsdl()
    probe = PrintProbe(pydsdl)
    from pv.mon.conserve import Conserve
    from pv.mon.const import ConstMonitor

    always_on = [Conserve(pydsdl).install(), ConstMonitor(pydsdl).install()]
    for i in range(ctx.share(ctx.params["n"])):
        if ctx.out_of_time():
            break
        seed = ctx.rng.randrange(1 << 40)
        case = gen_case(random.Random(seed))
        case["seed"] = seed
        sp = case["special"]
        for m in always_on:
            m.bind(ctx, case)
        try:
            with ctx.watchdog(60):
                run_case(ctx, pydsdl, probe, case, ctx.tmp)
        except CaseTimeout:
            ctx.inconclusive_case("watchdog", {"seed": seed})
        start = sp.get("start") or min(sp.get("tags", {"x": 1}).values() or [1])
        nontrivial = start > 1
        ctx.case((sp["kind"], start, case["depth"], case["first_as_target"], case["api"], case["crlf"]), nontrivial,
                 classes=["mode-" + sp["mode"], "kind-" + sp["kind"], "depth-%d" % case["depth"], "api-" + case["api"],
                          "first-as-" + ("target" if case["first_as_target"] else "dependency"), "eol-" + ({True: "crlf", False: "lf"}.get(case["crlf"], str(case["crlf"])))],
                 sample={"files": case["files"], "special": sp, "api": case["api"]} if i < 2 else None)


def replay(ctx, case):
    pydsdl = import_pydsdl()
    probe = PrintProbe(pydsdl)
    run_case(ctx, pydsdl, probe, case, ctx.tmp)
