"""C06 - serialize/deserialize round-trip and wire format (R-codec reference + M-bitio shadow on the real bit writer)."""
from __future__ import annotations

import random
import shutil

from pv.core import CaseTimeout, import_pydsdl
from pv.gen import types as GT
from pv.gen import values as GV
from pv.mon import blscmp
from pv.mon.bitio import BitIO
from pv.ref import codec as RC

TITLE = "serdes round trip / wire format"
RULE = (
    "serdes-sized universes (nested structures, unions, delimited types, fixed/variable arrays, every primitive width "
    "and cast mode) x canonical values with boundary numbers, NaN/inf/subnormals, empty/full arrays, multi-byte UTF-8; "
    "each value is also spelled with out-of-range numbers, omitted default fields and relaxed positional/bare forms. "
    "pydsdl.serialize is compared byte-for-byte with R-codec, deserialize(serialize(v)) with v, the bit length with "
    "T.bit_length_set, with and without the top-level delimiter header; a third of the values are written right after a serialize call rejected part-way (one defect planted in a valid value). Non-trivial: the type nests >=2 constructors "
    "and the value has a non-default leaf; distinct by (universe, type index, value)."
)
ASSUMPTIONS = [
    "R-codec (pv/ref/codec.py) is the trusted wire-format reference; its IEEE 754 conversion was cross-checked against struct",
    "NaN payloads are not compared (only the canonical quiet NaN is generated)",
    "relaxed forms use field names unique across nesting levels (the relaxed form is ambiguous otherwise)",
]
MIN_MONITORS = {"wire": 12000, "roundtrip": 12000, "length-in-set": 12000, "header": 2000, "oor": 1500, "omit": 1500,
                "relaxed": 2500, "after-rejection": 4000, "result-mutated": 3000, "bitio-write": 200000, "bitio-finish": 20000, "bitio-read": 100000}
THOROUGH_MIN_SCALE = 8


def plan(tier):
    if tier == "quick":
        return {"shards": 16, "params": {"n": 2400, "values": 10, "time_cap_s": 240}}
    return {"shards": 16, "params": {"n": 32000, "values": 20, "time_cap_s": 1500}, "hard_timeout_s": 3000}


def has_nondefault(cd, idx, cv):
    return not RC.same_value(cv, cd.default_composite(idx))


def fixed_ok(cd, idx):
    return GV.fixed_elements(cd, ("ref", idx)) <= 3000


def check_value(ctx, pydsdl, cd, objs, idx, cv, vseed, case):
    T = objs[idx]
    d = cd.u[idx]
    rng = random.Random(vseed)
    rep = cd.encode(idx, cv)
    # harness self-check: the reference must round-trip its own encoding
    back = cd.decode(idx, rep)
    if not RC.same_value(back, cv) or not cd.valid_composite(idx, cv):
        raise RuntimeError("harness bug: reference codec does not round-trip %r -> %r" % (cv, back))
    if rng.random() < 0.35:
        # history: the valid value below is written right after a call that was rejected part-way (possibly for another type)
        j = rng.randrange(len(objs)) if rng.random() < 0.5 else idx
        if j == idx or fixed_ok(cd, j):
            bad = GV.spoil_composite(rng, cd, j, cv if j == idx else GV.gen_composite(rng, cd, j, [rng.choice([3, 10])]))
            if bad is not None:
                ctx.mon("after-rejection")
                try:
                    pydsdl.serialize(objs[j], bad[0], with_delimiter_header=(not cd.u[j]["sealed"]) and rng.random() < 0.5)
                    ctx.cls("spoiled-value-accepted")   # e.g. a number spelled as something castable: not judged here
                except Exception as ex:  # noqa  (which exception is raised for an invalid value is not a statement of C06)
                    ctx.cls("rejected-" + type(ex).__name__)
    ctx.mon("wire")
    got = pydsdl.serialize(T, cv)
    if got != rep:
        ctx.violation("C06/wire", "serialize(%s) = %s, reference %s for %r" % (T, got.hex(), rep.hex(), cv), case)
        return
    ctx.mon("roundtrip")
    rt = pydsdl.deserialize(T, got)
    if not RC.same_value(rt, cv):
        ctx.violation("C06/roundtrip", "deserialize(serialize(v)) = %r for v = %r (%s)" % (rt, cv, T), case)
    if rng.random() < 0.2:
        # the caller changes the object it received in place; what the library returns and writes afterwards is unaffected
        ctx.mon("result-mutated")
        GV.scramble(rt, rng)
        n_ = [0]
        again, wrote, wrote_omitted = pydsdl.deserialize(T, got), pydsdl.serialize(T, cv), pydsdl.serialize(T, GV.spell_omit(rng, cd, idx, cv, n_))
        if not RC.same_value(again, cv) or wrote != rep or wrote_omitted != rep:
            ctx.violation("C06/state-after-mutation", "after the caller changed a deserialized object of %s in place: the same bytes read as %r (expected %r), the value is written as %s / with defaults omitted as %s (expected %s)" % (
                T, again, cv, wrote.hex(), wrote_omitted.hex(), rep.hex()), case)
    ctx.mon("length-in-set")
    bls = T.inner_type.bit_length_set if isinstance(T, pydsdl.DelimitedType) else T.bit_length_set
    ok, how = blscmp.member(ctx, bls, 8 * len(got))
    if not ok:
        ctx.violation("C06/length-not-in-set", "%d bits written for %s but %s (%s)" % (8 * len(got), T, how, bls), case)
    if not d["sealed"]:
        ctx.mon("header")
        rep_h = cd.encode(idx, cv, with_header=True)
        got_h = pydsdl.serialize(T, cv, with_delimiter_header=True)
        if got_h != rep_h:
            ctx.violation("C06/wire-header", "with header: %s, reference %s for %r" % (got_h.hex(), rep_h.hex(), cv), case)
        else:
            rt = pydsdl.deserialize(T, got_h, with_delimiter_header=True)
            if not RC.same_value(rt, cv):
                ctx.violation("C06/roundtrip-header", "with header: %r for %r" % (rt, cv), case)
            ok, how = blscmp.member(ctx, T.bit_length_set, 8 * len(got_h))
            if not ok:
                ctx.violation("C06/length-not-in-set", "%d bits with header for %s but %s" % (8 * len(got_h), T, how), case)
    # equivalent spellings
    n = [0]
    v2 = GV.spell_oor_composite(rng, cd, idx, cv, n)
    if n[0]:
        ctx.mon("oor")
        got2 = pydsdl.serialize(T, v2)
        if got2 != rep:
            ctx.violation("C06/cast", "out-of-range spelling %r encodes to %s, expected %s (= encoding of %r)" % (v2, got2.hex(), rep.hex(), cv), case)
    n = [0]
    v3 = GV.spell_omit(rng, cd, idx, cv, n)
    if n[0]:
        ctx.mon("omit")
        got3 = pydsdl.serialize(T, v3)
        if got3 != rep:
            ctx.violation("C06/omitted-default", "%r (fields omitted) encodes to %s, expected %s" % (v3, got3.hex(), rep.hex()), case)
    n = [0]
    v4 = GV.spell_relaxed(rng, cd, idx, cv, n)
    ctx.mon("relaxed")
    got4 = pydsdl.serialize(T, v4, relaxed=True)
    if got4 != rep:
        ctx.violation("C06/relaxed", "relaxed form %r encodes to %s, explicit form %r to %s" % (v4, got4.hex(), cv, rep.hex()), case)
    if n[0]:
        ctx.cls("relaxed-nontrivial")


def run_case(ctx, pydsdl, mon, u, text_ok, seed, nvalues, workdir):
    case = {"universe": u, "text_ok": text_ok, "seed": seed, "nvalues": nvalues}
    mon.bind(ctx, case)
    rng = random.Random(seed)
    if text_ok:
        d = workdir / "t"
        try:
            objs = GT.read_universe(pydsdl, u, d, random.Random(seed))
        finally:
            shutil.rmtree(d, ignore_errors=True)
    else:
        objs = GT.construct_universe(pydsdl, u)
    if seed % 4 == 0:
        objs = GT.with_service_sections(pydsdl, u, objs, seed)
        ctx.cls("service-sections")
    cd = RC.Codec(u)
    nontrivial_sigs = []
    for idx in range(len(u)):
        if GV.fixed_elements(cd, ("ref", idx)) > 3000:
            ctx.cls("skipped-large-fixed")
            continue
        for vi in range(nvalues if idx == len(u) - 1 else max(2, nvalues // 3)):
            cv = GV.gen_composite(rng, cd, idx, [rng.choice([0, 3, 10, 40])]) if vi else cd.default_composite(idx)
            vseed = rng.randrange(1 << 30)
            case["idx"], case["value"] = idx, cv
            try:
                check_value(ctx, pydsdl, cd, objs, idx, cv, vseed, case)
            except (pydsdl.Error, ValueError, TypeError, OverflowError, KeyError, IndexError, AssertionError) as ex:
                ctx.violation("C06/exception", "%r for value %r of %s" % (ex, cv, objs[idx]), case)
            nt = GT.def_nesting(u[idx], u) >= 2 and has_nondefault(cd, idx, cv)
            ctx.case((GT.universe_sig(u), idx, repr(cv)), nt, classes=["kind-%s-%s" % (u[idx]["kind"], "sealed" if u[idx]["sealed"] else "delimited")])
    return nontrivial_sigs


def run_shard(ctx):
    pydsdl = import_pydsdl()
    mon = BitIO(pydsdl).install()
    rng = ctx.rng
    n = ctx.share(ctx.params["n"])
    for i in range(n):
        if ctx.out_of_time():
            break
        text_ok = rng.random() < 0.25
        u = GT.gen_universe(rng, small=True, text_ok=text_ok, max_fields=5, consts=True)
        seed = rng.randrange(1 << 30)
        try:
            with ctx.watchdog(120):
                run_case(ctx, pydsdl, mon, u, text_ok, seed, ctx.params["values"], ctx.tmp)
        except CaseTimeout:
            ctx.inconclusive_case("watchdog", {"universe": u})
        if i < 2:
            ctx.samples.append({"definitions": [GT.render_def(d, u) for d in u]})


def replay(ctx, case):
    from pv.props.c02 import fix_universe

    pydsdl = import_pydsdl()
    mon = BitIO(pydsdl).install()
    u = fix_universe(case["universe"])
    run_case(ctx, pydsdl, mon, u, case["text_ok"], case["seed"], case["nvalues"], ctx.tmp)
