"""C03 - the model mirrors the source text, independent of formatting."""
from __future__ import annotations

import random
import shutil

from pv.core import CaseTimeout, import_pydsdl
from pv.gen import defs as GD
from pv.gen import types as GT
from pv.mon.conserve import Conserve

TITLE = "model mirrors source / formatting independence"
RULE = (
    "definition descriptions (messages and services, structures and unions, fields / paddings / constants with literal, "
    "char and constant-referencing initializers, @union/@deprecated/@sealed/@extent/@assert/@print, header, same-line, "
    "following-line and orphan comments, references to dependency definitions) rendered under >=8 seeded formatting "
    "policies (LF/CRLF, final newline or not, runs of blanks/tabs between tokens, trailing blanks, whitespace-only blank "
    "lines, injected orphan comments) and with every kind of last line (field/constant/padding/directive/comment/blank). "
    "Oracles: M-conserve inside the builder (emitted statements = committed attributes at finalize), expected signature "
    "computed from the description, equality of signatures across policies, canonical re-rendering round trip. "
    "Non-trivial: >=2 attribute statements of >=2 kinds and >=1 comment; distinct by (statement kinds, ending, line ending)."
)
ASSUMPTIONS = [
    "doc comments are asserted only for unambiguous placements: leading block = header; same-line comment plus directly "
    "following comment lines = that attribute's doc; blocks fenced by a blank line attach to nothing; doc blocks never "
    "start with an empty comment line",
    "statements are never indented (the grammar has no leading blank before a statement)",
]
MIN_MONITORS = {"conserve-finalize": 40000, "expected-signature": 16000, "policy-compare": 14000, "canonical-roundtrip": 2000}
THOROUGH_MIN_SCALE = 8


def plan(tier):
    if tier == "quick":
        return {"shards": 16, "params": {"n": 4000, "policies": 8, "time_cap_s": 240}}
    return {"shards": 16, "params": {"n": 60000, "policies": 12, "time_cap_s": 1800}, "hard_timeout_s": 3600}


def fix_docs(desc, rng):
    """Doc blocks never start with an empty comment (pydsdl drops leading empty comment lines; not asserted)."""
    for sec in desc["sections"]:
        if sec["header"] and sec["header"][0] == "" and any(sec["header"]):
            sec["header"][0] = "header"
        if sec["header"] and not any(sec["header"]):
            sec["header"] = [""]
        # a header block that consists of an empty comment line only stays: it is a block of its own (doc ''), and what follows it after
        # an empty line is detached from the header
        for it in sec["items"]:
            block = ([it["same"]] if it["same"] is not None else []) + it["follow"]
            if block and block[0] == "":
                if it["same"] is not None:
                    it["same"] = "note"
                else:
                    it["follow"][0] = "note"
            if it["orphan"] and it["orphan"][0] == "":
                it["orphan"][0] = "orphan"
        if sec.get("mode_same") == "":
            sec["mode_same"] = "mode"


def read_text(pydsdl, base, deps_u, text, crlf):
    """Writes the dependency universe + the definition under test (binary, so that line endings survive) and reads it."""
    GT.write_universe(deps_u, base)
    p = base / GT.ROOT / "Main.1.0.dsdl"
    p.parent.mkdir(parents=True, exist_ok=True)
    p.write_bytes(text.encode("utf-8"))
    out = pydsdl.read_namespace(base / GT.ROOT, [])
    for t in out:
        if t.full_name == GT.ROOT + ".Main":
            return t
    raise AssertionError("Main not returned")


def diff_sig(a, b):
    if a == b:
        return None
    if a["service"] != b["service"] or a["deprecated"] != b["deprecated"] or len(a["sections"]) != len(b["sections"]):
        return "structure", "service/deprecated flags: %r vs %r" % ((a["service"], a["deprecated"]), (b["service"], b["deprecated"]))
    for i, (x, y) in enumerate(zip(a["sections"], b["sections"])):
        for key in ("kind", "sealed", "extent"):
            if x[key] != y[key]:
                return "structure", "section %d %s: %r vs %r" % (i, key, x[key], y[key])
        if [f[0] for f in x["fields"]] != [f[0] for f in y["fields"]]:
            return "structure", "section %d fields: %r vs %r" % (i, [f[0] for f in x["fields"]], [f[0] for f in y["fields"]])
        if [c[:2] for c in x["constants"]] != [c[:2] for c in y["constants"]]:
            return "structure", "section %d constants: %r vs %r" % (i, [c[:2] for c in x["constants"]], [c[:2] for c in y["constants"]])
        if x["doc"] != y["doc"]:
            return "doc", "section %d header doc: %r vs %r" % (i, x["doc"], y["doc"])
        for f, g in zip(x["fields"], y["fields"]):
            if f[1] != g[1]:
                return "doc", "section %d doc of %s: %r vs %r" % (i, f[0], f[1], g[1])
        for f, g in zip(x["constants"], y["constants"]):
            if f[2] != g[2]:
                return "doc", "section %d doc of %s: %r vs %r" % (i, f[0], f[2], g[2])
    return "structure", "signatures differ"


def diagnose(pydsdl, base, deps_u, text, crlf, expected):
    """Differential diagnosis used only to name the mechanism of a mismatch (keys known findings by mechanism)."""
    def sig_of(t2):
        try:
            shutil.rmtree(base, ignore_errors=True)
            return GD.model_signature(pydsdl, read_text(pydsdl, base, deps_u, t2, crlf))
        except Exception:  # noqa
            return None

    eol = "\r\n" if crlf else "\n"
    if not text.endswith("\n") and sig_of(text + eol) == expected:
        return "no-final-newline"
    stripped = eol.join(("" if not ln.strip(" \t") else ln) for ln in text.split(eol))
    if stripped != text and sig_of(stripped) == expected:
        return "whitespace-only-line"
    return "other"


def run_case(ctx, pydsdl, mon, deps_u, desc, seed, npol, workdir):
    case = {"deps": deps_u, "desc_seed": seed, "npol": npol}
    mon.bind(ctx, case)
    expected = GD.expected_signature(desc, deps_u)
    base = workdir / "c03"
    sigs = []
    endings = [None, "blank", "comment"]
    first_model = None
    for pi in range(npol):
        prng = random.Random("%d:%d" % (seed, pi))
        pol = GD.Policy(prng, plain=(pi == 0))
        if pi == 1:
            pol = GD.Policy(prng, plain=True, final_newline=False)
        elif pi == 2:
            pol = GD.Policy(prng, plain=True, crlf=True, final_newline=False)
        elif pi == 3:
            pol = GD.Policy(prng, plain=True, ws_blank_lines=True)
        ending = endings[pi % 3] if pi >= 3 else None
        text, _ = GD.render(desc, pol, ending)
        c2 = dict(case, policy=pol.name(), ending=ending, text=text)
        mon.case = c2
        last_kind = last_line_kind(text)
        shutil.rmtree(base, ignore_errors=True)
        try:
            model = read_text(pydsdl, base, deps_u, text, pol.crlf)
        except pydsdl.InvalidDefinitionError as ex:
            ctx.violation("C03/valid-definition-rejected", "policy %s: %r" % (pol.name(), ex), c2)
            continue
        finally:
            pass
        if first_model is None:
            first_model = model
        got = GD.model_signature(pydsdl, model)
        ctx.mon("expected-signature")
        d = diff_sig(expected, got)
        if d is not None:
            why = diagnose(pydsdl, base, deps_u, text, pol.crlf, expected)
            ctx.violation("C03/%s-differs/%s" % (d[0], why), "policy %s, last line %s: expected vs model: %s" % (pol.name(), last_kind, d[1]), c2)
        sigs.append((pol.name(), got))
        ctx.cls("ending-" + last_kind + ("" if text.endswith("\n") else "-no-newline"))
        ctx.cls("eol-" + ("crlf" if pol.crlf else "lf"))
    # metamorphic: all policies give the same signature
    for name, s in sigs[1:]:
        ctx.mon("policy-compare")
        d = diff_sig(sigs[0][1], s)
        if d is not None and diff_sig(expected, s) is None and diff_sig(expected, sigs[0][1]) is None:
            pass
        elif d is not None and diff_sig(expected, sigs[0][1]) is None:
            pass  # already reported against the expectation above
        elif d is not None:
            ctx.violation("C03/formatting-dependent", "policies %s and %s give different models: %s" % (sigs[0][0], name, d[1]), case)
    # canonical round trip
    if first_model is not None:
        ctx.mon("canonical-roundtrip")
        ct = GD.canonical_text(pydsdl, first_model)
        shutil.rmtree(base, ignore_errors=True)
        try:
            again = read_text(pydsdl, base, deps_u, ct, False)
            d = diff_sig(GD.model_signature(pydsdl, first_model), GD.model_signature(pydsdl, again))
            if d is not None:
                ctx.violation("C03/canonical-roundtrip", "re-reading the canonical rendering changes the model: %s\n%s" % (d[1], ct), dict(case, text=ct))
            elif not (again == first_model and hash(again) == hash(first_model)):
                ctx.violation("C03/canonical-roundtrip", "re-read model is not equal to the original", dict(case, text=ct))
        except pydsdl.InvalidDefinitionError as ex:
            ctx.violation("C03/canonical-roundtrip", "canonical rendering is rejected: %r\n%s" % (ex, ct), dict(case, text=ct))
    shutil.rmtree(base, ignore_errors=True)


def last_line_kind(text):
    ln = text.replace("\r\n", "\n").split("\n")
    last = ln[-1] if ln[-1] != "" or len(ln) == 1 else ln[-2]
    s = last.strip(" \t")
    if s == "":
        return "blank"
    if s.startswith("#"):
        return "comment"
    if s.startswith("@"):
        return "directive"
    if s.startswith("void"):
        return "padding"
    if "=" in s.split("#")[0]:
        return "constant"
    if s.startswith("---"):
        return "marker"
    return "field"


def make_case(seed):
    rng = random.Random(seed)
    deps = GT.gen_universe(rng, n_defs=rng.choice([0, 0, 1, 2]), small=True, text_ok=True, max_fields=3) if rng.random() < 0.6 else []
    desc = GD.gen_definition(rng, deps)
    fix_docs(desc, rng)
    return deps, desc


def run_shard(ctx):
    pydsdl = import_pydsdl()
    mon = Conserve(pydsdl).install()
    for i in range(ctx.share(ctx.params["n"])):
        if ctx.out_of_time():
            break
        seed = ctx.rng.randrange(1 << 40)
        deps, desc = make_case(seed)
        kinds = [it["kind"] for s in desc["sections"] for it in s["items"]]
        attr_kinds = {k for k in kinds if k in ("field", "pad", "const")}
        ncomments = sum((1 if it["same"] is not None else 0) + len(it["follow"]) + len(it["orphan"]) for s in desc["sections"] for it in s["items"]) + sum(len(s["header"]) for s in desc["sections"])
        nontrivial = sum(1 for k in kinds if k in ("field", "pad", "const")) >= 2 and len(attr_kinds) >= 2 and ncomments >= 1
        try:
            with ctx.watchdog(180):
                run_case(ctx, pydsdl, mon, deps, desc, seed, ctx.params["policies"], ctx.tmp)
        except CaseTimeout:
            ctx.inconclusive_case("watchdog", {"desc_seed": seed})
        except (pydsdl.Error, AssertionError) as ex:
            ctx.violation("C03/exception", "%r" % (ex,), {"desc_seed": seed, "npol": ctx.params["policies"]})
        text0, _ = GD.render(desc, GD.Policy(random.Random(0), plain=True))
        ctx.case((tuple(kinds), len(desc["sections"]), tuple(s["sealed_pos"] for s in desc["sections"])), nontrivial,
                 classes=["service" if len(desc["sections"]) == 2 else "message"] + ["stmt-" + k for k in set(kinds)],
                 sample={"text": text0} if i < 2 else None)


def replay(ctx, case):
    pydsdl = import_pydsdl()
    mon = Conserve(pydsdl).install()
    deps, desc = make_case(case["desc_seed"])
    run_case(ctx, pydsdl, mon, deps, desc, case["desc_seed"], case["npol"], ctx.tmp)
