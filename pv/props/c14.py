"""C14 - delimited (appendable) types evolve without breaking containers or the wire."""
from __future__ import annotations

import copy
import random
import shutil

from pv.core import CaseTimeout, import_pydsdl
from pv.gen import types as GT
from pv.gen import values as GV
from pv.mon import blscmp
from pv.mon.bitio import BitIO
from pv.ref import bls as R
from pv.ref import codec as RC
from pv.ref.layout import Layout

TITLE = "delimited type evolution"
RULE = (
    "pairs (D = X.1.0, D' = X.1.1) of delimited structures with equal extent where D' appends 1-3 trailing fields, nested "
    "as field / fixed or variable array element / union variant / inside another delimited or sealed composite (optionally "
    "through an intermediate composite) of a container that has further fields after the nested object. Containers built "
    "with D and with D' must have equal bit length sets, extents and field offsets (compared live and against R-layout); "
    "values written with either revision are read with the other and compared with the structural projection (common "
    "fields kept, writer-unknown fields default, reader-unknown fields skipped, everything after the nested object equal); layouts also compared on pickled / copied type graphs. "
    "Non-trivial: container has >=1 field after the nested object; distinct by (universe, value)."
)
ASSUMPTIONS = ["R-codec / R-layout are the trusted references", "D is a structure (appending union variants is outside the statement)"]
MIN_MONITORS = {"container-layout": 1500, "offsets": 3000, "old-to-new": 8000, "new-to-old": 8000, "bitio-subreader": 20000,
                "bitio-read": 300000, "result-mutated": 3000}
THOROUGH_MIN_SCALE = 8


def plan(tier):
    if tier == "quick":
        return {"shards": 16, "params": {"n": 2000, "values": 8, "time_cap_s": 240}}
    return {"shards": 16, "params": {"n": 32000, "values": 20, "time_cap_s": 1500}, "hard_timeout_s": 3000}


def swap_ref(t, a, b):
    if t[0] == "ref":
        return ("ref", b) if t[1] == a else t
    if t[0] in ("fixed", "var"):
        return (t[0], swap_ref(t[1], a, b), t[2])
    return t


def gen_pair_universe(rng):
    """deps..., Xold, Xnew, [Mold, Mnew], Cold, Cnew.  Returns (u, iCold, iCnew, has_following)."""
    u = GT.gen_universe(rng, n_defs=rng.choice([0, 1, 2]), small=True, text_ok=True, max_fields=3) if rng.random() < 0.7 else []
    n0 = len(u)

    def fields(prefix, n, nprev):
        return [{"name": "%s%d" % (prefix, j), "type": GT.gen_type(rng, nprev, 1, True, True)} for j in range(n)]

    base_f = fields("x", rng.choice([0, 1, 1, 2, 3]), n0)
    extra_f = fields("y", rng.choice([1, 1, 2, 3]), n0)
    xold = {"name": "pvns.X", "ver": (1, 0), "kind": "struct", "fields": base_f, "sealed": False, "extent": None}
    xnew = {"name": "pvns.X", "ver": (1, 1), "kind": "struct", "fields": copy.deepcopy(base_f) + extra_f, "sealed": False, "extent": None}
    cand = u + [xold, xnew]
    lay = Layout(cand)
    mx = max(R.ref_max(lay.inner_tree(xold)), R.ref_max(lay.inner_tree(xnew)))
    ext = mx + 8 * rng.choice([0, 0, 1, 2, 7, 64])
    xold["extent"] = xnew["extent"] = ext
    u = cand
    i_old, i_new = n0, n0 + 1
    tgt_old, tgt_new = i_old, i_new

    def container(name_old, name_new, tgt_o, tgt_n, force_following):
        kind = "union" if rng.random() < 0.2 else "struct"
        nprev = len(u)
        fl = []
        nf = rng.choice([1, 2, 3, 4])
        pos = rng.randrange(nf)
        following = False
        for j in range(nf):
            if j == pos:
                r = rng.random()
                t = ("ref", tgt_o)
                if r < 0.25:
                    t = ("fixed", t, rng.choice([1, 2, 3]))
                elif r < 0.55:
                    t = ("var", t, rng.choice([1, 2, 3, 5]))
                fl.append({"name": "n%d" % j, "type": t})
            else:
                if kind == "struct" and rng.random() < 0.15:
                    fl.append({"pad": rng.choice([1, 3, 8, 13])})
                else:
                    # never reference the revisions directly from sibling fields
                    ty = GT.gen_type(rng, n0, 1, True, True)
                    fl.append({"name": "n%d" % j, "type": ty})
                if j > pos:
                    following = True
        if kind == "union" and len(fl) < 2:
            fl.append({"name": "n9", "type": ("uint", 7, "sat")})
        if kind == "struct" and force_following and not following:
            fl.append({"name": "n8", "type": rng.choice([("uint", 3, "trunc"), ("int", 16), ("bool",), ("var", ("uint", 8, "sat"), 3)])})
            following = True
        sealed = rng.random() < 0.6
        old = {"name": name_old, "ver": (1, 0), "kind": kind, "fields": fl, "sealed": sealed, "extent": None}
        new = copy.deepcopy(old)
        new["name"] = name_new
        for f in new["fields"]:
            if "type" in f:
                f["type"] = swap_ref(f["type"], tgt_o, tgt_n)
        if not sealed:
            lay2 = Layout(u + [old])
            e = R.ref_max(lay2.inner_tree(old)) + 8 * rng.choice([0, 1, 5])
            old["extent"] = new["extent"] = e
        return old, new, following or kind == "union"

    if rng.random() < 0.35:
        mo, mn, _ = container("pvns.Mold", "pvns.Mnew", tgt_old, tgt_new, False)
        u += [mo, mn]
        tgt_old, tgt_new = len(u) - 2, len(u) - 1
    co, cn, following = container("pvns.Cold", "pvns.Cnew", tgt_old, tgt_new, True)
    u += [co, cn]
    return u, len(u) - 2, len(u) - 1, following


def project(cd, t_from, t_to, v):
    """Expected result of reading, as t_to, data written from value v of the structurally corresponding type t_from."""
    k = t_to[0]
    if k in ("fixed", "var"):
        if isinstance(v, (str, bytes)):
            return v
        return [project(cd, t_from[1], t_to[1], x) for x in v]
    if k == "ref":
        return project_composite(cd, t_from[1], t_to[1], v)
    return v


def project_composite(cd, i_from, i_to, v):
    df, dt = cd.u[i_from], cd.u[i_to]
    ftypes = {f["name"]: f["type"] for f in df["fields"] if "type" in f}
    if dt["kind"] == "union":
        (name, x), = v.items()
        tt = [f["type"] for f in dt["fields"] if f.get("name") == name][0]
        return {name: project(cd, ftypes[name], tt, x)}
    out = {}
    for f in dt["fields"]:
        if "type" not in f:
            continue
        if f["name"] in ftypes:
            out[f["name"]] = project(cd, ftypes[f["name"]], f["type"], v[f["name"]])
        else:
            out[f["name"]] = cd.default(f["type"])
    return out


def layout_unaffected(ctx, Cold, Cnew, lay, i_old, case, label):
    ctx.mon("container-layout")
    diff = blscmp.live_difference(ctx, Cold.bit_length_set, Cnew.bit_length_set)
    if diff:
        ctx.violation("C14/container-bls", "%s: container bit length sets differ between revisions: %s" % (label, diff), case)
    blscmp.compare(ctx, Cnew.bit_length_set, lay.definition(i_old)["tree"], "C14/container-bls-ref", "%s: container(new) vs layout(old)" % label, case)
    if Cold.extent != Cnew.extent:
        ctx.violation("C14/container-extent", "%s: container extents differ: %r vs %r" % (label, Cold.extent, Cnew.extent), case)
    fo, fn = list(Cold.iterate_fields_with_offsets()), list(Cnew.iterate_fields_with_offsets())
    if [f.name for f, _ in fo] != [f.name for f, _ in fn]:
        ctx.violation("C14/offsets", "%s: field lists differ" % label, case)
    else:
        for (f1, o1), (f2, o2) in zip(fo, fn):
            ctx.mon("offsets")
            diff = blscmp.live_difference(ctx, o1, o2)
            if diff:
                ctx.violation("C14/offsets", "%s: offset of field %r differs between revisions: %s" % (label, f1.name, diff), case)


def run_case(ctx, pydsdl, mon, u, i_old, i_new, text_ok, seed, nvalues, workdir):
    case = {"universe": u, "i_old": i_old, "i_new": i_new, "text_ok": text_ok, "seed": seed, "nvalues": nvalues}
    mon.bind(ctx, case)
    rng = random.Random(seed)
    if text_ok:
        d = workdir / "t"
        try:
            objs = GT.read_universe(pydsdl, u, d, random.Random(seed))
        finally:
            shutil.rmtree(d, ignore_errors=True)
    else:
        objs = GT.construct_universe(pydsdl, u)
    Cold, Cnew = objs[i_old], objs[i_new]
    lay = Layout(u)
    # 1. container layout is unaffected by the revision
    layout_unaffected(ctx, Cold, Cnew, lay, i_old, case, "as built")
    if seed % 2 == 0:
        # ... and stays so when the model objects are handed on (pickle round trip of the whole graph / one by one, copies)
        for label, cs in GT.copies(objs, random.Random(seed ^ 0xC0B1)):
            ctx.mon("copies")
            ctx.cls("copy-" + label)
            layout_unaffected(ctx, cs[i_old], cs[i_new], lay, i_old, dict(case, copy=label), label)
            if seed % 4 == 0:
                Cold, Cnew = cs[i_old], cs[i_new]   # the wire experiments below use the copies
    # 2. wire compatibility in both directions
    cd = RC.Codec(u)
    if GV.fixed_elements(cd, ("ref", i_new)) > 2000:
        ctx.cls("skipped-large-fixed")
        return
    for vi in range(nvalues):
        v_new = GV.gen_composite(rng, cd, i_new, [rng.choice([3, 10, 30])])
        v_old = project_composite(cd, i_new, i_old, v_new)
        for direction, (iw, ir, Tw, Tr, vw) in (("old-to-new", (i_old, i_new, Cold, Cnew, v_old)),
                                                ("new-to-old", (i_new, i_old, Cnew, Cold, v_new))):
            ctx.mon(direction)
            exp = project_composite(cd, iw, ir, vw)
            ref_bytes = cd.encode(iw, vw)
            ref_read = cd.decode(ir, ref_bytes)
            if not RC.same_value(ref_read, exp):
                raise RuntimeError("harness bug: reference decode %r != projection %r" % (ref_read, exp))
            c2 = dict(case, direction=direction, value=vw)
            try:
                b = pydsdl.serialize(Tw, vw)
                if b != ref_bytes:
                    ctx.violation("C14/wire", "%s: serialize differs from the reference: %s vs %s" % (direction, b.hex(), ref_bytes.hex()), c2)
                    continue
                got = pydsdl.deserialize(Tr, b)
            except (pydsdl.Error, ValueError, TypeError, IndexError, KeyError) as ex:
                ctx.violation("C14/" + direction, "%s: %r for %r" % (direction, ex, vw), c2)
                continue
            if not RC.same_value(got, exp):
                ctx.violation("C14/" + direction, "%s: wrote %r, read %r, expected %r" % (direction, vw, got, exp), c2)
                continue
            if rng.random() < 0.35:
                # the application changes the received object in place (update and republish); the next reception of the same bytes,
                # and the next object written, are what they were
                ctx.mon("result-mutated")
                GV.scramble(got, rng)
                try:
                    again = pydsdl.deserialize(Tr, b)
                    b2 = pydsdl.serialize(Tw, vw)
                except (pydsdl.Error, ValueError, TypeError, IndexError, KeyError, AttributeError) as ex:
                    ctx.violation("C14/state-after-mutation", "%s: after the caller changed a received object in place: %r" % (direction, ex), c2)
                    continue
                if not RC.same_value(again, exp) or b2 != ref_bytes:
                    ctx.violation("C14/state-after-mutation", "%s: after the caller changed a received object in place, the same bytes read as %r (expected %r), the same value is written as %s (expected %s)" % (
                        direction, again, exp, b2.hex(), ref_bytes.hex()), c2)
        ctx.case((GT.universe_sig(u), repr(v_new)), case.get("following", True), classes=[])


def run_shard(ctx):
    pydsdl = import_pydsdl()
    mon = BitIO(pydsdl).install()
    rng = ctx.rng
    n = ctx.share(ctx.params["n"])
    for i in range(n):
        if ctx.out_of_time():
            break
        u, i_old, i_new, following = gen_pair_universe(rng)
        text_ok = rng.random() < 0.3
        seed = rng.randrange(1 << 30)
        co = u[i_old]
        ctx.cls("container-%s-%s" % (co["kind"], "sealed" if co["sealed"] else "delimited"))
        for f in co["fields"]:
            if "type" in f and f["type"][0] in ("fixed", "var") and f["type"][1][0] == "ref" and f["type"][1][1] >= len(u) - 6:
                ctx.cls("nested-as-%s-array-element" % f["type"][0])
        if len(u) >= 2 and u[-3]["name"] == "pvns.Mnew":
            ctx.cls("through-intermediate-composite")
        try:
            with ctx.watchdog(120):
                run_case(ctx, pydsdl, mon, u, i_old, i_new, text_ok, seed, ctx.params["values"], ctx.tmp)
        except CaseTimeout:
            ctx.inconclusive_case("watchdog", {"universe": u})
        except (pydsdl.Error, AssertionError) as ex:
            ctx.violation("C14/exception", "%r" % (ex,), {"universe": u, "i_old": i_old, "i_new": i_new, "text_ok": text_ok, "seed": seed, "nvalues": ctx.params["values"]})
        if i < 2:
            ctx.samples.append({"definitions": {"%s.%d.%d" % (d["name"], d["ver"][0], d["ver"][1]): GT.render_def(d, u) for d in u}})


def replay(ctx, case):
    from pv.props.c02 import fix_universe

    pydsdl = import_pydsdl()
    mon = BitIO(pydsdl).install()
    u = fix_universe(case["universe"])
    run_case(ctx, pydsdl, mon, u, case["i_old"], case["i_new"], case["text_ok"], case["seed"], case["nvalues"], ctx.tmp)
