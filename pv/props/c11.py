"""C11 - port-ID and minor-version consistency rules hold for every set of definitions (pairwise R-rules oracle)."""
from __future__ import annotations

import itertools
import random
import shutil

from pv.core import CaseTimeout, import_pydsdl

TITLE = "port-ID / minor-version rules"
RULE = (
    "sets of 2-4 definitions over 1-2 names: versions from majors {0,1,2} x minors {0,1,2}, kind message/service, fixed "
    "port-ID absent/p/q, sealed with extent 8/16 or delimited with extent 64/72, separately for request and response of "
    "services; the set is placed in the target namespace, or in a lookup namespace with all / some of its members "
    "referenced from the target. The reference predicate is exactly the pairwise rule of the statement (port-ID "
    "collisions over the definitions read as targets; minor-version rules over everything read). The two-definition "
    "sub-space in the target namespace is enumerated completely in the thorough tier. Non-trivial: >=2 definitions sharing "
    "a name or a port-ID; distinct by configuration tuple."
)
ASSUMPTIONS = ["fixed port-IDs are unregulated ones (allow_unregulated_fixed_port_id=True); the regulated ranges belong to C05"]
MIN_MONITORS = {"configuration": 20000, "expected-accept": 8000, "expected-reject": 5000, "same-version-twins": 800}
THOROUGH_MIN_SCALE = 3

MODES = [("sealed", 8), ("sealed", 16), ("ext", 64), ("ext", 72), ("sealed", 64)]  # sealed 64 vs delimited 64: equal extents, different sealing (M-reach: the sealing check was never reached otherwise)
VERSIONS = [(0, 1), (0, 2), (1, 0), (1, 1), (1, 2), (2, 0), (2, 1)]
PORTS = [None, 100, 101, 0, 511]  # 0 and 511: the smallest port-ID and the largest one valid for both kinds


def plan(tier):
    if tier == "quick":
        return {"shards": 16, "params": {"n": 32000, "exhaustive_pairs": False, "time_cap_s": 300}}
    return {"shards": 16, "params": {"n": 60000, "exhaustive_pairs": True, "time_cap_s": 2400}, "hard_timeout_s": 4000}


def section_text(mode, tag):
    kind, e = mode
    if kind == "sealed":
        return "uint%d %s\n@sealed\n" % (e, tag)
    return "uint8 %s\n@extent %d\n" % (tag, e)


def def_text(d):
    if d["kind"] == "msg":
        return section_text(d["req"], "a")
    return section_text(d["req"], "a") + "---\n" + section_text(d["resp"], "b")


def extent_sealing(mode):
    return (mode[1], mode[0] == "sealed")


def pair_minor_violation(a, b):
    """Same name, same major, different minor: does the pair violate the minor-version rules?"""
    if a["kind"] != b["kind"]:
        return "kind"
    old, new = (a, b) if a["ver"][1] < b["ver"][1] else (b, a)
    if old["port"] is not None and new["port"] is not None and old["port"] != new["port"]:
        return "port-changed"
    if old["port"] is not None and new["port"] is None:
        return "port-removed"
    if a["ver"][0] >= 1:
        if extent_sealing(a["req"]) != extent_sealing(b["req"]):
            return "request-extent-or-sealing"
        if a["kind"] == "svc" and extent_sealing(a["resp"]) != extent_sealing(b["resp"]):
            return "response-extent-or-sealing"
    return None


def pair_port_collision(a, b):
    if a["port"] is None or b["port"] is None or a["port"] != b["port"]:
        return None
    if a["kind"] != b["kind"]:
        return None  # subject-IDs and service-IDs are separate spaces
    if a["name"] == b["name"] and (a["ver"][0] == b["ver"][0] or a["ver"][0] == 0 or b["ver"][0] == 0):
        return None
    return "port-collision"


def expected(defs, direct, read):
    """direct: indices read as targets; read: all indices read (direct + transitive). Returns list of reasons."""
    out = []
    for i, j in itertools.combinations(sorted(direct), 2):
        r = pair_port_collision(defs[i], defs[j])
        if r:
            out.append((r, i, j))
    for i, j in itertools.combinations(sorted(read), 2):
        a, b = defs[i], defs[j]
        if a["name"] == b["name"] and a["ver"][0] == b["ver"][0] and a["ver"][1] != b["ver"][1]:
            r = pair_minor_violation(a, b)
            if r:
                out.append((r, i, j))
    return out


def gen_defs(rng):
    n = rng.choice([2, 2, 2, 3, 3, 4])
    names = ["Aa"] if rng.random() < 0.55 else ["Aa", "Bb"]
    defs, used = [], set()
    # biased towards conforming families: start from a template and perturb
    tmpl = {"kind": rng.choice(["msg", "msg", "svc"]), "port": rng.choice(PORTS), "req": rng.choice(MODES), "resp": rng.choice(MODES)}
    for _ in range(n):
        for _a in range(20):
            name, ver = rng.choice(names), rng.choice(VERSIONS)
            if (name, ver) not in used:
                used.add((name, ver))
                break
        else:
            continue
        d = dict(tmpl, name=name, ver=ver)
        for key, pool in (("kind", ["msg", "svc"]), ("port", PORTS), ("req", MODES), ("resp", MODES)):
            if rng.random() < 0.25:
                d[key] = rng.choice(pool)
        defs.append(d)
    return defs


def file_rel(root, d):
    fn = "%s.%d.%d.dsdl" % (d["name"], d["ver"][0], d["ver"][1])
    if d["port"] is not None:
        fn = "%d.%s" % (d["port"], fn)
    return "%s/%s" % (root, fn)


def run_config(ctx, pydsdl, defs, placement, referenced, workdir, tag):
    """placement: 'target' | 'lookup'. referenced: indices of lookup definitions referenced from the target."""
    base = workdir / "c11"
    shutil.rmtree(base, ignore_errors=True)
    case = {"defs": defs, "placement": placement, "referenced": sorted(referenced)}
    try:
        if placement == "target":
            for d in defs:
                p = base / file_rel("tgt", d)
                p.parent.mkdir(parents=True, exist_ok=True)
                p.write_text(def_text(d))
            direct = set(range(len(defs)))
            read = set(direct)
            call = lambda: pydsdl.read_namespace(base / "tgt", [], allow_unregulated_fixed_port_id=True)  # noqa
        elif placement == "split":
            for d in defs:
                p = base / file_rel("tgt", d)
                p.parent.mkdir(parents=True, exist_ok=True)
                p.write_text(def_text(d))
            if any(defs[i]["kind"] == "svc" for i in referenced):
                return None
            rng = random.Random(repr(cfg_key(defs, placement, referenced)))
            cname = rng.choice(["Aclient", "Zuser", "Bb_user"])
            refs = ["tgt.%s.%d.%d r%d" % (defs[i]["name"], defs[i]["ver"][0], defs[i]["ver"][1], k) for k, i in enumerate(sorted(referenced))]
            (base / "tgt" / (cname + ".1.0.dsdl")).write_text("\n".join(refs + ["@extent 8000"]) + "\n")
            targets = [i for i in range(len(defs)) if i not in referenced]
            files = [base / file_rel("tgt", defs[i]) for i in targets] + [base / "tgt" / (cname + ".1.0.dsdl")]
            rng.shuffle(files)
            direct = set(targets)
            read = set(targets) | set(referenced)
            call = lambda: pydsdl.read_files(files, [base / "tgt"], allow_unregulated_fixed_port_id=True)  # noqa
        else:
            for d in defs:
                p = base / file_rel("lkp", d)
                p.parent.mkdir(parents=True, exist_ok=True)
                p.write_text(def_text(d))
            refs = []
            for k, i in enumerate(sorted(referenced)):
                d = defs[i]
                if d["kind"] == "svc":
                    refs.append("@assert lkp.%s.%d.%d._extent_ == lkp.%s.%d.%d._extent_" % ((d["name"],) + tuple(d["ver"]) + (d["name"],) + tuple(d["ver"])))
                else:
                    refs.append("lkp.%s.%d.%d r%d" % (d["name"], d["ver"][0], d["ver"][1], k))
            (base / "tgt").mkdir(parents=True, exist_ok=True)
            (base / "tgt" / "User.1.0.dsdl").write_text("\n".join(refs + ["@extent 8000"]) + "\n")
            direct = set()
            # services cannot be used as field types, and `Service._extent_` is not defined: they stay unreferenced
            read = {i for i in referenced if defs[i]["kind"] == "msg"}
            if any(defs[i]["kind"] == "svc" for i in referenced):
                return None
            call = lambda: pydsdl.read_namespace(base / "tgt", [base / "lkp"], allow_unregulated_fixed_port_id=True)  # noqa
        if placement == "split":
            # read_files: some definitions are targets, others are only reached as dependencies of a client definition that
            # sorts before (Aclient) or after (Zuser) them
            pass
        exp = expected(defs, direct, read)
        ctx.mon("configuration")
        try:
            call()
            accepted, err = True, None
        except pydsdl.InvalidDefinitionError as ex:
            accepted, err = False, ex
        except pydsdl.Error as ex:
            ctx.violation("C11/wrong-exception", "%r" % (ex,), case)
            return exp
        if exp:
            ctx.mon("expected-reject")
            if accepted:
                ctx.violation("C11/violating-set-accepted/" + exp[0][0], "%s: violating set accepted; violated: %r" % (placement, exp), case)
        else:
            ctx.mon("expected-accept")
            if not accepted:
                ctx.violation("C11/conforming-set-rejected", "%s: conforming set rejected: %r" % (placement, err), case)
        return exp
    finally:
        shutil.rmtree(base, ignore_errors=True)


def twin_violation(a, b):
    """
    Two definition files that spell the SAME name and version (Aa.1.0.dsdl next to 100.Aa.1.0.dsdl or Aa.1.0.uavcan): they are two
    definitions under one major version, so the rules of the statement apply to the pair as to any other - same kind, same port-ID,
    and for major >= 1 equal extent and sealing per section.  Returns the violated rule or None (then the pair is not judged here).
    """
    if a["kind"] != b["kind"]:
        return "kind"
    if a["port"] != b["port"]:
        return "port-differs"
    if a["ver"][0] >= 1:
        if extent_sealing(a["req"]) != extent_sealing(b["req"]):
            return "request-extent-or-sealing"
        if a["kind"] == "svc" and extent_sealing(a["resp"]) != extent_sealing(b["resp"]):
            return "response-extent-or-sealing"
    return None


def run_twins(ctx, pydsdl, rng, workdir):
    base = workdir / "c11t"
    shutil.rmtree(base, ignore_errors=True)
    kind = rng.choice(["msg", "svc", "svc"])
    ver = rng.choice(VERSIONS)
    a = {"name": "Aa", "ver": ver, "kind": kind, "port": rng.choice(PORTS), "req": rng.choice(MODES), "resp": rng.choice(MODES)}
    b = dict(a)
    for key, pool in (("kind", ["msg", "svc"]), ("port", PORTS), ("req", MODES), ("resp", MODES)):
        if rng.random() < 0.4:
            b[key] = rng.choice(pool)
    fa, fb = file_rel("tgt", a), file_rel("tgt", b)
    if fa == fb:
        fb = fb[:-len(".dsdl")] + ".uavcan"   # the legacy extension
    why = twin_violation(a, b)
    if why is None:
        return
    case = {"twins": [a, b], "files": [fa, fb]}
    try:
        for f, d in ((fa, a), (fb, b)):
            (base / f).parent.mkdir(parents=True, exist_ok=True)
            (base / f).write_text(def_text(d))
        if rng.random() < 0.5:
            (base / "tgt" / "Other.1.0.dsdl").write_text("@sealed\n")
        ctx.mon("configuration")
        ctx.mon("same-version-twins")
        ctx.mon("expected-reject")
        api = "read_namespace" if rng.random() < 0.7 else "read_files"
        case["api"] = api
        try:
            if api == "read_namespace":
                pydsdl.read_namespace(base / "tgt", [], allow_unregulated_fixed_port_id=True)
            else:
                pydsdl.read_files([base / fa, base / fb], [base / "tgt"], allow_unregulated_fixed_port_id=True)
        except pydsdl.InvalidDefinitionError:
            return
        except Exception as ex:  # noqa
            ctx.violation("C11/wrong-exception", "%r" % (ex,), case)
            return
        same_layout = a["kind"] == b["kind"] and a["req"] == b["req"] and (a["kind"] == "msg" or a["resp"] == b["resp"])
        # the known finding C10/duplicate-definition-dropped seen through this property: read_files de-duplicates its targets by name and
        # version before anything is read, read_namespace merges two composites that it cannot tell apart (same kind and layout)
        mech = "C11/duplicate-definition-dropped" if (same_layout or api == "read_files") else "C11/violating-set-accepted/twins-" + why
        ctx.violation(mech, "%s: two files define Aa.%d.%d (%s and %s) and differ in %s, but the set was accepted" % (api, ver[0], ver[1], fa, fb, why), case)
    finally:
        shutil.rmtree(base, ignore_errors=True)
        ctx.case(("twins", repr(a), repr(b), fb), True, classes=["same-version-twins", "expect-reject:twins-" + why])


def cfg_key(defs, placement, referenced):
    return (tuple((d["name"], d["ver"], d["kind"], d["port"], d["req"], d["resp"] if d["kind"] == "svc" else None) for d in defs), placement, tuple(sorted(referenced)))


def all_pairs():
    for same_name in (True, False):
        for v1, v2 in itertools.product(VERSIONS, VERSIONS):
            if same_name and v1 >= v2:
                continue
            for k1, k2 in (("msg", "msg"), ("msg", "svc"), ("svc", "svc")):
                for p1, p2 in itertools.product(PORTS, PORTS):
                    for r1, r2 in itertools.product(MODES, MODES):
                        resp = [(MODES[0], MODES[0])] if (k1, k2) != ("svc", "svc") else [(MODES[0], MODES[0]), (MODES[0], MODES[1]), (MODES[2], MODES[3]), (MODES[0], MODES[2])]
                        for s1, s2 in resp:
                            yield [{"name": "Aa", "ver": v1, "kind": k1, "port": p1, "req": r1, "resp": s1},
                                   {"name": "Aa" if same_name else "Bb", "ver": v2, "kind": k2, "port": p2, "req": r2, "resp": s2}]


def run_shard(ctx):
    pydsdl = import_pydsdl()
    rng = ctx.rng
    for i in range(ctx.share(ctx.params["n"])):
        if ctx.out_of_time():
            break
        defs = gen_defs(rng)
        if len(defs) < 2:
            continue
        placement = rng.choice(["target", "target", "target", "lookup", "lookup", "split", "split"])
        referenced = set()
        if placement == "lookup":
            referenced = {j for j in range(len(defs)) if rng.random() < 0.7}
        elif placement == "split":
            referenced = {j for j in range(len(defs)) if rng.random() < 0.5 and defs[j]["kind"] == "msg"}
            if not referenced or len(referenced) == len(defs):
                placement, referenced = "target", set()
        try:
            with ctx.watchdog(60):
                exp = run_config(ctx, pydsdl, defs, placement, referenced, ctx.tmp, i)
        except CaseTimeout:
            ctx.inconclusive_case("watchdog", {"defs": defs})
            continue
        if exp is None:
            continue
        shares = len({d["name"] for d in defs}) < len(defs) or len({d["port"] for d in defs if d["port"] is not None}) < len([d for d in defs if d["port"] is not None])
        ctx.case(cfg_key(defs, placement, referenced), shares, classes=["placement-" + placement, "expect-" + ("reject:" + exp[0][0] if exp else "accept")],
                 sample={"files": {file_rel("tgt" if placement == "target" else "lkp", d): def_text(d) for d in defs}, "expected": exp or "accept"} if i < 3 else None)
    for i in range(ctx.share(ctx.params["n"]) // 16):
        if ctx.out_of_time():
            break
        run_twins(ctx, pydsdl, rng, ctx.tmp)
    if ctx.params["exhaustive_pairs"]:
        pairs = list(all_pairs())
        ctx.notes["two_definition_subspace"] = len(pairs)
        for k, defs in enumerate(pairs):
            if k % ctx.nshards != ctx.shard:
                continue
            if ctx.out_of_time():
                ctx.notes["two_definition_subspace_truncated"] = True
                break
            exp = run_config(ctx, pydsdl, defs, "target", set(), ctx.tmp, k)
            ctx.case(cfg_key(defs, "target", ()), True, classes=["exhaustive-pair", "expect-" + ("reject:" + exp[0][0] if exp else "accept")])


def replay(ctx, case):
    pydsdl = import_pydsdl()
    if "twins" in case:
        base = ctx.tmp / "c11t"
        for f, d in zip(case["files"], case["twins"]):
            d["ver"], d["req"], d["resp"] = tuple(d["ver"]), tuple(d["req"]), tuple(d["resp"])
            (base / f).parent.mkdir(parents=True, exist_ok=True)
            (base / f).write_text(def_text(d))
        try:
            if case.get("api") == "read_files":
                print("accepted:", pydsdl.read_files([base / f for f in case["files"]], [base / "tgt"], allow_unregulated_fixed_port_id=True))
            else:
                print("accepted:", pydsdl.read_namespace(base / "tgt", [], allow_unregulated_fixed_port_id=True))
            ctx.violation(case.get("mech", "C11/violating-set-accepted/twins"), "accepted", case)
        except pydsdl.InvalidDefinitionError as ex:
            print("rejected:", repr(ex))
        return
    defs = case["defs"]
    for d in defs:
        d["ver"], d["req"], d["resp"] = tuple(d["ver"]), tuple(d["req"]), tuple(d["resp"])
    print(run_config(ctx, pydsdl, defs, case["placement"], set(case["referenced"]), ctx.tmp, 0))
