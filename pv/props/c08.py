"""C08 - field offsets and the in-language layout intrinsics equal the real bit positions."""
from __future__ import annotations

import random
import re
import shutil

from pv.core import CaseTimeout, import_pydsdl
from pv.gen import types as GT
from pv.gen import values as GV
from pv.mon import blscmp
from pv.ref import bls as R
from pv.ref import codec as RC
from pv.ref.layout import Layout

TITLE = "field offsets / _offset_ / _bit_length_ / _extent_"
RULE = (
    "part A: composites of generated universes x base offset sets ({0}, {8}, {1,16}, {0,4,8}, random multi-valued, "
    "unaligned): iterate_fields_with_offsets must yield exactly the fields in order with offset sets equal to R-layout's "
    "start-position sets (min/max, residues, expansion when small); positions at which R-codec actually placed each "
    "field while encoding sampled values (its bytes validated against pydsdl.serialize) must be members of the yielded "
    "sets; enumerate_elements_with_offsets likewise. part B: definitions with @print _offset_ after every admissible "
    "field position and @print T._bit_length_ / T._extent_, observed through the print handler, compared with R-layout; the offset part is repeated on pickled / copied model objects. "
    "Non-trivial: composite with >=2 fields of which one is variable-length or sub-byte; distinct by (universe, base set)."
)
ASSUMPTIONS = ["R-layout / R-codec are the trusted references", "`_offset_` is only queried where the set is small enough to expand"]
MIN_MONITORS = {"fields-in-order": 4000, "offset-set": 12000, "placement-member": 8000, "element-offsets": 800,
                "print-offset": 1500, "print-bit-length": 400, "print-extent": 400, "print-offset-service": 1500}
THOROUGH_MIN_SCALE = 8


def plan(tier):
    if tier == "quick":
        return {"shards": 16, "params": {"n": 2000, "time_cap_s": 240}}
    return {"shards": 16, "params": {"n": 36000, "time_cap_s": 1500}, "hard_timeout_s": 3000}


def gen_base(rng):
    r = rng.random()
    if r < 0.2:
        return (0,)
    if r < 0.3:
        return (8,)
    if r < 0.4:
        return (1, 16)
    if r < 0.5:
        return (0, 4, 8)
    if r < 0.75:
        return tuple(sorted({rng.randrange(0, 200) for _ in range(rng.choice([1, 2, 3, 4]))}))
    return tuple(sorted({8 * rng.randrange(0, 40) for _ in range(rng.choice([1, 2, 3]))}))


def nontrivial_def(d):
    fs = [f for f in d["fields"]]
    if len(fs) < 2:
        return False
    for f in fs:
        if "pad" in f and f["pad"] % 8:
            return True
        if "type" in f:
            t = f["type"]
            if t[0] == "var" or t[0] == "ref":
                return True
            if t[0] in ("uint", "int") and t[1] % 8:
                return True
            if t[0] == "bool":
                return True
    return False


def part_a(ctx, pydsdl, u, objs, small, seed, case):
    rng = random.Random(seed)
    lay = Layout(u)
    cd = RC.Codec(u)
    B = pydsdl.BitLengthSet
    for idx, (d, T) in enumerate(zip(u, objs)):
        bases = [(0,)] + [gen_base(rng) for _ in range(2)]
        for bi, base in enumerate(bases):
            base_tree = ("leaf", tuple(base))
            bobj = B(set(base)) if (bi or rng.random() < 0.5) else None
            if rng.random() < 0.4 and len(T.fields) >= 2:
                # a traversal that is abandoned early (a lookup of one field by next(), a break) - on an object that may never
                # have been traversed before - leaves nothing behind that a later traversal could pick up
                ctx.mon("abandoned-traversal")
                it = T.iterate_fields_with_offsets(B(set(gen_base(rng)))) if rng.random() < 0.5 else T.iterate_fields_with_offsets()
                for _ in range(rng.randrange(1, len(T.fields))):
                    f_, o_ = next(it)
                    if rng.random() < 0.5:
                        _ = (o_.min, o_.max)
                del it
            pairs = list(T.iterate_fields_with_offsets(bobj)) if bobj is not None else list(T.iterate_fields_with_offsets())
            ctx.mon("fields-in-order")
            fields = T.fields
            if len(pairs) != len(fields) or any(p[0] is not f and p[0] != f for p, f in zip(pairs, fields)) or \
                    [str(p[0]) for p in pairs] != [str(f) for f in fields] or len(fields) != len(d["fields"]):
                ctx.violation("C08/fields", "%s: iterate_fields_with_offsets yields %r, fields are %r" % (
                    T, [str(p[0]) for p in pairs], [str(f) for f in fields]), dict(case, idx=idx, base=base))
                continue
            exp = lay.field_offsets(idx, base_tree)
            for (pos, etree), (fobj, off) in zip(exp, pairs):
                ctx.mon("offset-set")
                blscmp.compare(ctx, off, etree, "C08/offset", "%s field #%d (%s) base %s" % (T, pos, fobj, list(base)),
                               dict(case, idx=idx, base=base), divisors=(1, 2, 3, 7, 8, 16, 32, 64), expand_limit=2048)
            ctx.case((GT.universe_sig(u), idx, base), nontrivial_def(d), classes=["base-%s" % ("aligned" if all(b % 8 == 0 for b in base) else "unaligned"),
                                                                                 "base-size-%d" % len(base), "kind-%s-%s" % (d["kind"], "sealed" if d["sealed"] else "delimited")])
            # soundness against real placements
            if small and GV.fixed_elements(cd, ("ref", idx)) <= 1500 and d["fields"]:
                for _ in range(3):
                    cv = GV.gen_composite(rng, cd, idx, [rng.choice([0, 3, 10])])
                    header = (not d["sealed"])
                    trace = []
                    rep = cd.encode(idx, cv, with_header=header, trace=trace)
                    got = pydsdl.serialize(T, cv, with_delimiter_header=header)
                    if got != rep:
                        ctx.violation("C08/codec-disagrees", "reference bytes differ from pydsdl.serialize for %r" % (cv,), dict(case, idx=idx))
                        break
                    for (fpos, p) in trace:
                        for b in base:
                            ctx.mon("placement-member")
                            where = b + (-b) % 8 + p
                            ok, how = blscmp.member(ctx, pairs[fpos][1], where, divisors=(8, 16, 32, 64))
                            if not ok:
                                ctx.violation("C08/placement", "%s field #%d actually starts at bit %d (base %d, value %r) but the yielded offset set says %s: %s" % (
                                    T, fpos, where, b, cv, how, pairs[fpos][1]), dict(case, idx=idx, base=base))
        # fixed-length arrays
        for f, fobj in zip(d["fields"], T.fields):
            if "type" in f and f["type"][0] == "fixed" and f["type"][2] <= 40:
                t = f["type"]
                base = gen_base(rng)
                got = list(fobj.data_type.enumerate_elements_with_offsets(B(set(base))))
                ctx.mon("element-offsets")
                if [i for i, _ in got] != list(range(t[2])):
                    ctx.violation("C08/elements", "%s: element indices %r" % (fobj, [i for i, _ in got]), dict(case, idx=idx, base=base))
                    continue
                a = lay.align(t)
                bt = ("leaf", tuple(base))
                bt = ("pad", bt, a) if a > 1 else bt
                et = lay.tree(t[1])
                for i, off in got:
                    blscmp.compare(ctx, off, ("concat", (bt, ("repeat", et, i))), "C08/element-offset",
                                   "%s element %d base %s" % (fobj, i, list(base)), dict(case, idx=idx, base=base), divisors=(1, 8, 16, 64), expand_limit=512)


SET_RE = re.compile(r"^\{(.*)\}$")


def parse_printed_set(text):
    m = SET_RE.match(text.strip())
    if not m:
        return None
    try:
        return {int(x) for x in m.group(1).split(",")}
    except ValueError:
        return None


def part_b(ctx, pydsdl, u, seed, workdir, case):
    """@print _offset_ / T._bit_length_ / T._extent_ through the front door."""
    rng = random.Random(seed ^ 0x5A5A)
    lay = Layout(u)
    extra = {}
    expected = {}  # (def index, line number) -> ("offset"|"bls"|"extent", expected)
    for idx, d in enumerate(u):
        ex = {}
        positions = list(range(len(d["fields"]) + 1)) if d["kind"] == "struct" else [len(d["fields"])]
        chosen = [p for p in positions if rng.random() < 0.7] or [positions[-1]]
        for p in chosen:
            tree = lay.struct_offset_after(idx, p)
            try:
                if R.ref_max(tree) > 50000:
                    raise R.TooBig
                em = {}
                mask = R.ref_expand_mask(tree, limit_bits=1 << 16, _memo=em)
                if R.popcount(mask) > 600:
                    raise R.TooBig
                R.CostMeter(80000).expand(tree, em)
            except R.TooBig:
                ctx.cls("offset-print-skipped-too-big")
                continue
            spelling = rng.choice(["@print _offset_", "@print   _offset_", "@assert _offset_ == %s" % ("{" + ", ".join(map(str, sorted(R.bits(mask)))) + "}")])
            ex.setdefault(p, []).append((spelling, ("offset", set(R.bits(mask)))))
        # intrinsics of earlier definitions / primitive types
        if idx > 0 and rng.random() < 0.8:
            j = rng.randrange(idx)
            dj = u[j]
            nm = "%s.%d.%d" % (dj["name"], dj["ver"][0], dj["ver"][1])
            info = lay.definition(j)
            ex.setdefault(0 if d["kind"] == "struct" else len(d["fields"]), []).append(("@print %s._extent_" % nm, ("extent", info["extent"])))
            try:
                if R.ref_max(info["tree"]) <= 50000:
                    em = {}
                    mask = R.ref_expand_mask(info["tree"], limit_bits=1 << 16, _memo=em)
                    if R.popcount(mask) <= 600:
                        R.CostMeter(80000).expand(info["tree"], em)
                        ex.setdefault(len(d["fields"]), []).append(("@print %s._bit_length_" % nm, ("bls", set(R.bits(mask)))))
            except R.TooBig:
                pass
        if rng.random() < 0.4:
            t = rng.choice([("uint", rng.randrange(1, 65), "sat"), ("fixed", ("int", rng.randrange(2, 65)), rng.randrange(1, 5)),
                            ("var", ("uint", 8, "sat"), rng.randrange(1, 6)), ("bool",)])
            ex.setdefault(len(d["fields"]), []).append(("@print %s._bit_length_" % GT.render_type(t, u), ("bls", R.ref_expand(lay.tree(t)))))
        extra[idx] = {p: [s for s, _ in lst] for p, lst in ex.items()}
        # compute line numbers the way render_def lays lines out
        nconst = lambda n: sum(1 for c in d.get("consts", []) if c["after"] == n)  # noqa: constants precede the extra lines of a position
        line = 1 + (1 if d["kind"] == "union" else 0) + nconst(0)
        for s, e in ex.get(0, []):
            if s.startswith("@print"):
                expected[(idx, line)] = e
            line += 1
        for n in range(1, len(d["fields"]) + 1):
            line += 1 + nconst(n)
            for s, e in ex.get(n, []):
                if s.startswith("@print"):
                    expected[(idx, line)] = e
                line += 1
    deliveries = []
    root = workdir / "b"
    paths = {str((root / GT.def_path(d)).resolve()): i for i, d in enumerate(u)}
    try:
        try:
            GT.read_universe(pydsdl, u, root, None, extra, print_handler=lambda p, l, t: deliveries.append((str(p), l, t)))
        except pydsdl.InvalidDefinitionError as ex:
            ctx.violation("C08/intrinsic-rejected", "definition with intrinsics rejected (a failed @assert _offset_ == ... means a wrong set): %r" % (ex,), dict(case, extra=extra))
            return
    finally:
        shutil.rmtree(root, ignore_errors=True)
    seen = {}
    for p, l, t in deliveries:
        seen.setdefault((paths.get(p), l), []).append(t)
    for key, (kind, exp) in expected.items():
        got = seen.get(key)
        ctx.mon({"offset": "print-offset", "bls": "print-bit-length", "extent": "print-extent"}[kind])
        if not got:
            ctx.violation("C08/print-missing", "no @print delivery for definition %d line %d (deliveries: %r)" % (key[0], key[1], deliveries[:6]), dict(case, extra=extra))
            continue
        # Attribution of deliveries to files is C17's subject; here any delivery recorded for this (file, line) may
        # carry the value (a definition that is also read as a dependency is evaluated more than once).
        if kind == "extent":
            if not any(v.strip() == str(exp) for v in got):
                ctx.violation("C08/_extent_", "definition %d line %d: _extent_ printed %r expected %d" % (key[0], key[1], got, exp), dict(case, extra=extra))
        else:
            if not any(parse_printed_set(v) == exp for v in got):
                ctx.violation("C08/_offset_" if kind == "offset" else "C08/_bit_length_", "definition %d line %d: printed %s expected %s" % (
                    key[0], key[1], [v[:200] for v in got[:3]], sorted(exp)[:80]), dict(case, extra=extra))


def part_c(ctx, pydsdl, u, seed, workdir, case):
    """A service whose request and response sections are two definitions of the universe, `_offset_` printed after every
    admissible field position of BOTH sections (the sections must not influence each other)."""
    rng = random.Random(seed ^ 0xC0FFEE)
    lay = Layout(u)
    if len(u) < 1:
        return
    i, j = rng.randrange(len(u)), rng.randrange(len(u))
    lines, expected = [], {}
    for si, idx in enumerate((i, j)):
        d = u[idx]
        if si == 1:
            lines.append("---")
        if d["kind"] == "union":
            lines.append("@union")
        positions = set(range(len(d["fields"]) + 1)) if d["kind"] == "struct" else {len(d["fields"])}

        def emit(p):
            tree = lay.struct_offset_after(idx, p)
            try:
                if R.ref_max(tree) > 50000:
                    raise R.TooBig
                em = {}
                mask = R.ref_expand_mask(tree, limit_bits=1 << 16, _memo=em)
                if R.popcount(mask) > 600:
                    raise R.TooBig
                R.CostMeter(80000).expand(tree, em)
            except R.TooBig:
                return
            # several queries at one position: a stale or shared cache would show up here
            for _ in range(rng.choice([1, 1, 2])):
                lines.append("@print _offset_")
                expected[len(lines)] = set(R.bits(mask))

        if 0 in positions:
            emit(0)
        for n, f in enumerate(d["fields"], 1):
            lines.append("void%d" % f["pad"] if "pad" in f else "%s %s" % (GT.render_type(f["type"], u), f["name"] + ("q" if si else "")))
            if n in positions and rng.random() < 0.8:
                emit(n)
        lines.append("@sealed" if d["sealed"] else "@extent %d" % d["extent"])
    if not expected:
        return
    text = "\n".join(lines) + "\n"
    root = workdir / "c"
    deliveries = []
    try:
        GT.write_universe(u, root)
        p = root / GT.ROOT / "Svc.1.0.dsdl"
        p.write_text(text)
        try:
            pydsdl.read_namespace(root / GT.ROOT, [], print_output_handler=lambda pp, l, t: deliveries.append((str(pp), l, t)))
        except pydsdl.InvalidDefinitionError as ex:
            ctx.violation("C08/intrinsic-rejected", "service with _offset_ queries rejected: %r\n%s" % (ex, text), dict(case, service=text))
            return
        mine = str(p.resolve())
        seen = {}
        for pp, l, t in deliveries:
            if str(pp) == mine or pp.endswith("Svc.1.0.dsdl"):
                seen.setdefault(l, []).append(t)
        for line, exp in expected.items():
            ctx.mon("print-offset-service")
            got = seen.get(line)
            if not got or not any(parse_printed_set(v) == exp for v in got):
                ctx.violation("C08/_offset_/service-section", "service line %d: _offset_ printed %s expected %s\n%s" % (line, got, sorted(exp)[:60], text), dict(case, service=text))
    finally:
        shutil.rmtree(root, ignore_errors=True)


def run_case(ctx, pydsdl, u, small, text_ok, seed, workdir):
    case = {"universe": u, "small": small, "text_ok": text_ok, "seed": seed}
    objs = GT.construct_universe(pydsdl, u)
    part_a(ctx, pydsdl, u, objs, small, seed, case)
    if seed % 2 == 0:
        # the same statements about the model objects after a pickle round trip / copy (how they reach a code generator from a cache)
        for label, cs in GT.copies(objs, random.Random(seed ^ 0xC0B1)):
            ctx.mon("copies")
            ctx.cls("copy-" + label)
            part_a(ctx, pydsdl, u, cs, small, seed + 1, dict(case, copy=label))
    if text_ok:
        part_b(ctx, pydsdl, u, seed, workdir, case)
        part_c(ctx, pydsdl, u, seed, workdir, case)


def run_shard(ctx):
    pydsdl = import_pydsdl()
    rng = ctx.rng
    n = ctx.share(ctx.params["n"])
    for i in range(n):
        if ctx.out_of_time():
            break
        small = rng.random() < 0.65
        text_ok = rng.random() < 0.6
        u = GT.gen_universe(rng, small=small, text_ok=text_ok, max_fields=6, divisors=(1, 8, 32, 64), cost_budget=30000, consts=True)
        seed = rng.randrange(1 << 30)
        try:
            with ctx.watchdog(120):
                run_case(ctx, pydsdl, u, small, text_ok, seed, ctx.tmp)
        except CaseTimeout:
            ctx.inconclusive_case("watchdog", {"universe": u})
        except (pydsdl.Error, AssertionError, ValueError, TypeError) as ex:
            ctx.violation("C08/exception", "%r" % (ex,), {"universe": u, "small": small, "text_ok": text_ok, "seed": seed})
        if i < 2:
            ctx.samples.append({"definitions": [GT.render_def(d, u) for d in u]})


def replay(ctx, case):
    from pv.props.c02 import fix_universe

    pydsdl = import_pydsdl()
    u = fix_universe(case["universe"])
    run_case(ctx, pydsdl, u, case["small"], case["text_ok"], case["seed"], ctx.tmp)
