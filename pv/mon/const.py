"""
M-const: icontract postcondition attached in place to the real pydsdl Constant.__init__.  After every successful
construction the stored value must be compliant with the declared type by rules recomputed here from the type's
normalized string (width / signedness / float format), never from pydsdl's own inclusive_value_range.
The condition records and returns True (a raising contract would change what it observes).
"""
from __future__ import annotations

import re
from fractions import Fraction

from pv.ref.codec import float_max

TYPE_RE = re.compile(r"^(saturated|truncated) (uint|int|float)(\d+)$")


def compliant(pydsdl, type_str: str, value):
    """Returns None if compliant, else a reason."""
    if type_str == "bool":
        return None if isinstance(value, pydsdl.Boolean) and isinstance(value.native_value, bool) else "bool constant holds %r" % (value,)
    if type_str in ("byte", "utf8"):
        # 8-bit unsigned integer types; a definition using them outside arrays is rejected later by the aggregation
        # rules, so a transient Constant of such a type is not a returned-model constant.
        type_str = "truncated uint8"
    m = TYPE_RE.match(type_str)
    if not m:
        return "a constant of type %r exists (only bool/integer/float may carry constants)" % type_str
    kind, n = m.group(2), int(m.group(3))
    if not isinstance(value, pydsdl.Rational):
        return "%s constant holds %r" % (type_str, value)
    v = value.native_value
    if not isinstance(v, Fraction):
        return "value is stored as %s, not as an exact rational" % type(v).__name__
    if kind == "float":
        mx = float_max(n)
        return None if -mx <= v <= mx else "value %s outside +-%s" % (v, mx)
    if v.denominator != 1:
        return "integer constant holds the non-integer %s" % v
    lo, hi = (0, (1 << n) - 1) if kind == "uint" else (-(1 << (n - 1)), (1 << (n - 1)) - 1)
    return None if lo <= v <= hi else "value %s outside [%d, %d]" % (v, lo, hi)


class ConstMonitor:
    def __init__(self, pydsdl):
        self.pydsdl = pydsdl
        self.ctx = None
        self.case = None
        self.cls = __import__("pydsdl._serializable._attribute", fromlist=["x"]).Constant
        self._orig = None

    def bind(self, ctx, case):
        self.ctx, self.case = ctx, case

    def install(self):
        import icontract

        mon = self
        self._orig = self.cls.__dict__["__init__"]

        def constant_is_compliant(self) -> bool:  # noqa: icontract passes the instance as `self`
            if mon.ctx is not None:
                mon.ctx.mon("m-const")
            why = compliant(mon.pydsdl, str(self.data_type), self.value)
            if why is not None and mon.ctx is not None:
                mon.ctx.violation("C12/m-const", "Constant %s %s: %s" % (self.data_type, self.name, why), mon.case)
            return True

        self.cls.__init__ = icontract.ensure(constant_is_compliant, error=AssertionError)(self._orig)
        return self

    def uninstall(self):
        if self._orig is not None:
            self.cls.__init__ = self._orig
