"""
M-conserve: conservation / exactly-once of attribute statements inside pydsdl's definition builder.

Event log per DataTypeBuilder instance: every on_field / on_constant / on_padding_field call is an *emit*, every
DataSchemaBuilder.add_field / add_constant is a *commit*.  At finalize() the committed sequence must equal the emitted
sequence (nothing pending, nothing lost, nothing twice, same order), judged on names and kinds only.
Attached in place on the real classes; needs no expected model, so it is on in every workload that reads definitions.
"""
from __future__ import annotations

import functools


class Conserve:
    def __init__(self, pydsdl):
        self.dtb = __import__("pydsdl._data_type_builder", fromlist=["x"])
        self.dsb = __import__("pydsdl._data_schema_builder", fromlist=["x"])
        self.ctx = None
        self.case = None
        self.stack = []  # active builders (nested reads of dependencies)
        self._orig = {}
        self.violations = []

    def bind(self, ctx, case):
        self.ctx, self.case = ctx, case
        self.stack.clear()
        self.violations = []

    def install(self):
        mon = self
        B = self.dtb.DataTypeBuilder
        S = self.dsb.DataSchemaBuilder
        for cls, names in ((B, ["__init__", "on_field", "on_constant", "on_padding_field", "on_service_response_marker", "finalize"]),
                           (S, ["add_field", "add_constant"])):
            for n in names:
                self._orig[(cls, n)] = cls.__dict__[n]
        o = self._orig

        @functools.wraps(o[(B, "__init__")])
        def b_init(self_, *a, **kw):
            o[(B, "__init__")](self_, *a, **kw)
            self_._pv_emitted, self_._pv_committed = [], []
            for s in self_._structs:
                s._pv_owner = self_

        def emit(kind, name_of):
            orig = o[(B, kind)]

            @functools.wraps(orig)
            def w(self_, *a, **kw):
                nm = name_of(*a, **kw)
                out = orig(self_, *a, **kw)  # raises for rejected statements: those are not emitted
                self_._pv_emitted.append((len(self_._structs), kind, nm))
                return out

            return w

        @functools.wraps(o[(B, "on_service_response_marker")])
        def marker(self_):
            o[(B, "on_service_response_marker")](self_)
            for s in self_._structs:
                s._pv_owner = self_

        def commit(kind):
            orig = o[(S, kind)]

            @functools.wraps(orig)
            def w(self_, attr):
                out = orig(self_, attr)
                owner = getattr(self_, "_pv_owner", None)
                if owner is not None:
                    owner._pv_committed.append((owner._structs.index(self_) + 1, type(attr).__name__, attr.name))
                return out

            return w

        @functools.wraps(o[(B, "finalize")])
        def finalize(self_):
            if mon.ctx is not None:
                mon.ctx.mon("conserve-finalize")
            em = [(sec, {"on_field": "Field", "on_padding_field": "PaddingField", "on_constant": "Constant"}[k], n) for sec, k, n in self_._pv_emitted]
            if em != self_._pv_committed:
                msg = "at finalize of %s: emitted statements %r but committed attributes %r" % (
                    getattr(self_._definition, "file_path", "?"), em, self_._pv_committed)
                mon.violations.append(msg)
                if mon.ctx is not None:
                    mech = "C03/attribute-lost" if len(em) > len(self_._pv_committed) else (
                        "C03/attribute-duplicated" if len(em) < len(self_._pv_committed) else "C03/attribute-reordered")
                    mon.ctx.violation(mech, msg, mon.case)
            return o[(B, "finalize")](self_)

        B.__init__ = b_init
        B.on_field = emit("on_field", lambda field_type, name: name)
        B.on_constant = emit("on_constant", lambda constant_type, name, value: name)
        B.on_padding_field = emit("on_padding_field", lambda padding_field_type: "")
        B.on_service_response_marker = marker
        B.finalize = finalize
        S.add_field = commit("add_field")
        S.add_constant = commit("add_constant")
        return self

    def uninstall(self):
        for (cls, n), f in self._orig.items():
            setattr(cls, n, f)
        self._orig.clear()
