"""
M-expand / M-enum / step meter for C16 (and as a hang guard elsewhere).

M-expand : every Operator.expand in pydsdl._bit_length_set._symbolic is wrapped in place; an expansion of any composite
           operator (everything except the NullaryOperator leaf) is recorded with its class and result size.
M-enum   : `_symbolic.itertools` is replaced by a proxy whose product / combinations_with_replacement count every tuple
           they yield and know the divisor of the enclosing modulo() call (Repetition / RangeRepetition / Concatenation
           .modulo are wrapped to publish it).  Invariants checked at the hook:
             combinations_with_replacement(S, r) inside modulo(d):  len(S) <= d  and  r <= 2d - 1
             product(*sets) inside modulo(d): every len <= d and the number of tuples <= d**2 (pairwise aggregation)
           and a global tuple budget (raises BudgetExceeded to abort a run-away query).
M-builtin: min / max / sum / sorted / any / all as seen from the two modules of pydsdl._bit_length_set are replaced (in the module
           namespaces, the builtins themselves are untouched) by wrappers that charge the number of elements of the sized
           argument they are about to walk inside C code - where neither the step meter nor a wall-clock alarm can see or stop
           them - against an element budget BEFORE walking it (a range of 2**49 elements is refused, not iterated).
Steps    : sys.monitoring PY_START + JUMP events on code objects of the pydsdl package (everything else DISABLEd).
"""
from __future__ import annotations

import itertools as _it
import sys


class BudgetExceeded(BaseException):
    pass


class SymbolicMonitor:
    TOOL = 4

    def __init__(self, pydsdl, repo_root: str):
        self.sym = __import__("pydsdl._bit_length_set._symbolic", fromlist=["x"])
        self.repo_root = str(repo_root)
        self.events = []  # structural violations: (kind, detail)
        self.expansions = []  # (class name, size)
        self.tuples = 0
        self.steps = 0
        self.cwr_calls = 0
        self.product_calls = 0
        self.max_r = 0
        self.max_s = 0
        self.max_product = 0
        self.tuple_budget = 3_000_000
        self.enumerated = 0          # elements handed to C-level consumers (min/max/sum/sorted/any/all) by the symbolic code
        self.max_enumerated = 0
        self.enum_budget = 5_000_000
        self.step_budget = 60_000_000
        self._div = []
        self._orig = {}
        self._steps_on = False

    # ---- lifecycle ----
    def reset(self):
        self.events, self.expansions = [], []
        self.tuples = self.steps = self.cwr_calls = self.product_calls = 0
        self.max_r = self.max_s = self.max_product = 0
        self.enumerated = self.max_enumerated = 0
        self._div = []

    def snapshot(self):
        return {"tuples": self.tuples, "steps": self.steps, "cwr_calls": self.cwr_calls, "product_calls": self.product_calls,
                "max_r": self.max_r, "max_s": self.max_s, "max_product": self.max_product,
                "enumerated_by_builtins": self.enumerated, "largest_builtin_operand": self.max_enumerated,
                "composite_expansions": len(self.expansions)}

    def install(self):
        sym, mon = self.sym, self

        class ItertoolsProxy:
            def __getattr__(self, name):
                return getattr(_it, name)

            @staticmethod
            def combinations_with_replacement(iterable, r):
                pool = tuple(iterable)
                mon.cwr_calls += 1
                mon.max_r = max(mon.max_r, r)
                mon.max_s = max(mon.max_s, len(pool))
                d = mon._div[-1] if mon._div else None
                if d is not None:
                    if len(pool) > d:
                        mon.events.append(("residue-set-larger-than-divisor", "cwr over %d residues inside modulo(%d)" % (len(pool), d)))
                    if r > 2 * d - 1:
                        mon.events.append(("repetition-count-not-reduced", "combinations_with_replacement(|S|=%d, r=%d) inside modulo(%d)" % (len(pool), r, d)))
                        raise BudgetExceeded("r=%d for divisor %d" % (r, d))
                return mon._counted(_it.combinations_with_replacement(pool, r))

            @staticmethod
            def product(*iterables, **kw):
                pools = [tuple(p) for p in iterables]
                mon.product_calls += 1
                n = 1
                for p in pools:
                    n *= len(p)
                mon.max_product = max(mon.max_product, n)
                d = mon._div[-1] if mon._div else None
                if d is not None:
                    if any(len(p) > d for p in pools):
                        mon.events.append(("residue-set-larger-than-divisor", "product operand with %d residues inside modulo(%d)" % (max(map(len, pools)), d)))
                    if n > d * d:
                        mon.events.append(("concatenation-not-pairwise", "product of %d tuples (%d operands) inside modulo(%d) exceeds d**2" % (n, len(pools), d)))
                return mon._counted(_it.product(*pools, **kw))

        self._orig["itertools"] = sym.itertools
        sym.itertools = ItertoolsProxy()

        import builtins

        def charged(name):
            fn = getattr(builtins, name)

            def wrapper(*a, **kw):
                if len(a) == 1:
                    try:
                        n = len(a[0])
                    except TypeError:
                        n = None
                    if n is not None:
                        mon.enumerated += n
                        mon.max_enumerated = max(mon.max_enumerated, n)
                        if mon.enumerated > mon.enum_budget:
                            mon.events.append(("numeric-enumeration", "%s() over %d elements (a %s); more than %d elements walked by builtins" % (
                                name, n, type(a[0]).__name__, mon.enum_budget)))
                            mon.enumerated = 0
                            raise BudgetExceeded("element budget")
                return fn(*a, **kw)

            wrapper.__name__ = name
            return wrapper

        self._injected = []
        bls_mod = __import__("pydsdl._bit_length_set._bit_length_set", fromlist=["x"])
        for module in (sym, bls_mod):
            for name in ("min", "max", "sum", "sorted", "any", "all"):
                if name not in module.__dict__:
                    setattr(module, name, charged(name))
                    self._injected.append((module, name))

        def wrap_modulo(cls):
            orig = cls.__dict__["modulo"]
            self._orig[(cls, "modulo")] = orig

            def modulo(self_, divisor):
                mon._div.append(int(divisor))
                try:
                    return orig(self_, divisor)
                finally:
                    mon._div.pop()

            cls.modulo = modulo

        for cls in (sym.RepetitionOperator, sym.RangeRepetitionOperator, sym.ConcatenationOperator):
            wrap_modulo(cls)

        def wrap_expand(cls):
            orig = cls.__dict__["expand"]
            self._orig[(cls, "expand")] = orig

            def expand(self_):
                # numeric expansion suspends the modulo invariants (they are about analytic queries)
                saved, mon._div = mon._div, []
                try:
                    out = orig(self_)
                finally:
                    mon._div = saved
                mon.expansions.append((cls.__name__, len(out)))
                return out

            cls.expand = expand

        for name in ("PaddingOperator", "ConcatenationOperator", "RepetitionOperator", "RangeRepetitionOperator",
                     "UnionOperator", "MemoizationOperator"):
            wrap_expand(getattr(sym, name))
        return self

    def _counted(self, it):
        for x in it:
            self.tuples += 1
            if self.tuples > self.tuple_budget:
                self.events.append(("tuple-budget", "more than %d tuples enumerated" % self.tuple_budget))
                raise BudgetExceeded("tuple budget")
            yield x

    def uninstall(self):
        for key, f in self._orig.items():
            if key == "itertools":
                self.sym.itertools = f
            else:
                setattr(key[0], key[1], f)
        self._orig.clear()
        for module, name in getattr(self, "_injected", []):
            module.__dict__.pop(name, None)
        self._injected = []
        self.steps_off()

    # ---- step meter ----
    def steps_on(self):
        if self._steps_on:
            return
        m = sys.monitoring
        m.use_tool_id(self.TOOL, "pv-steps")
        root = self.repo_root
        mon = self

        def on_event(code, *_a):
            if not code.co_filename.startswith(root):
                return m.DISABLE
            mon.steps += 1
            if mon.steps > mon.step_budget:
                mon.events.append(("step-budget", "more than %d logical steps" % mon.step_budget))
                mon.steps = 0
                raise BudgetExceeded("step budget")
            return None

        m.register_callback(self.TOOL, m.events.PY_START, on_event)
        m.register_callback(self.TOOL, m.events.JUMP, on_event)
        m.set_events(self.TOOL, m.events.PY_START | m.events.JUMP)
        self._steps_on = True

    def steps_off(self):
        if not self._steps_on:
            return
        m = sys.monitoring
        m.set_events(self.TOOL, 0)
        m.register_callback(self.TOOL, m.events.PY_START, None)
        m.register_callback(self.TOOL, m.events.JUMP, None)
        m.free_tool_id(self.TOOL)
        self._steps_on = False
