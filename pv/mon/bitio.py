"""
M-bitio: shadow models attached in place to pydsdl._serdes._BitWriter / _BitReader (the real classes, so that every
caller inside pydsdl goes through them).

Writer: an independent bit accumulator replays every outermost write_bits/align_to; at finish() the real buffer must
equal the shadow, and after every call the real bit offset must equal the shadow's.
Reader: every outermost read_bits result must equal a reference extraction that knows only the data, the offset and the
effective bound of the reader (its own limit intersected with all enclosing readers' bounds; zero beyond); the offset
must advance by exactly the requested length; sub-readers must start where the parent stood and the parent must skip
exactly the announced length.
"""
from __future__ import annotations

import functools


class BitIO:
    def __init__(self, pydsdl):
        self.serdes = __import__("pydsdl._serdes", fromlist=["_serdes"])
        self.W = self.serdes._BitWriter
        self.Rd = self.serdes._BitReader
        self.ctx = None
        self.case = None
        self.errors = []
        self._orig = {}
        self._ints = {}

    # ---- plumbing ----
    def bind(self, ctx, case):
        self.ctx, self.case = ctx, case
        self._ints.clear()

    def fail(self, mech, msg):
        if self.ctx is not None:
            self.ctx.violation(mech, msg, self.case)
        self.errors.append((mech, msg))

    def broken(self, ex):
        """The monitor itself could not observe (renamed attribute...): inconclusive, never a verdict."""
        self.broken_count = getattr(self, "broken_count", 0) + 1
        if self.ctx is not None:
            self.ctx.mon("bitio-monitor-broken")
            self.ctx.inconclusive_case("M-bitio cannot observe: %r" % (ex,))

    def count(self, name, n=1):
        if self.ctx is not None:
            self.ctx.mon(name, n)

    def install(self):
        mon = self
        W, Rd = self.W, self.Rd
        for cls, names in ((W, ["__init__", "write_bits", "align_to", "finish"]),
                           (Rd, ["__init__", "read_bits", "align_to", "bounded_subreader"])):
            for n in names:
                self._orig[(cls, n)] = cls.__dict__[n]

        o_winit, o_write, o_walign, o_finish = (self._orig[(W, n)] for n in ["__init__", "write_bits", "align_to", "finish"])

        @functools.wraps(o_winit)
        def w_init(self_, *a, **kw):
            o_winit(self_, *a, **kw)
            self_._pv_bits, self_._pv_pos, self_._pv_depth, self_._pv_len = 0, 0, 0, 0

        @functools.wraps(o_write)
        def write_bits(self_, value, bit_length):
            if self_._pv_depth:
                return o_write(self_, value, bit_length)
            if self_.bit_offset != self_._pv_pos:
                # the position was moved from outside between two calls (the repository's unit tests rewind the writer by
                # hand; serialize() never does): follow it instead of reporting a difference the writer did not cause
                mon.count("bitio-writer-resync")
                self_._pv_pos = self_.bit_offset
                self_._pv_len = max(self_._pv_len, self_._pv_pos)
            self_._pv_depth += 1
            try:
                o_write(self_, value, bit_length)
            finally:
                self_._pv_depth -= 1
            mon.count("bitio-write")
            m = ((1 << bit_length) - 1) << self_._pv_pos
            self_._pv_bits = (self_._pv_bits & ~m) | ((int(value) << self_._pv_pos) & m)  # overwrite-capable, like the real buffer
            self_._pv_pos += bit_length
            self_._pv_len = max(self_._pv_len, self_._pv_pos)
            if self_.bit_offset != self_._pv_pos:
                mon.fail("bitio/writer-offset", "after write_bits(%r, %r): offset %r, shadow %r" % (
                    value, bit_length, self_.bit_offset, self_._pv_pos))

        @functools.wraps(o_walign)
        def w_align(self_, bit_alignment):
            if self_._pv_depth:
                return o_walign(self_, bit_alignment)
            if self_.bit_offset != self_._pv_pos:
                # position moved by something the monitor does not wrap (e.g. a new skip method): follow it; the skipped
                # region counts as zero bits that finish() must materialise
                mon.count("bitio-writer-resync")
                self_._pv_pos = self_.bit_offset
                self_._pv_len = max(self_._pv_len, self_._pv_pos)
            self_._pv_depth += 1
            try:
                o_walign(self_, bit_alignment)
            finally:
                self_._pv_depth -= 1
            mon.count("bitio-write")
            if bit_alignment > 0:
                pad = (-self_._pv_pos) % bit_alignment
                m = ((1 << pad) - 1) << self_._pv_pos
                self_._pv_bits &= ~m
                self_._pv_pos += pad
                self_._pv_len = max(self_._pv_len, self_._pv_pos)
            if self_.bit_offset != self_._pv_pos:
                mon.fail("bitio/writer-offset", "after align_to(%r): offset %r, shadow %r" % (
                    bit_alignment, self_.bit_offset, self_._pv_pos))

        @functools.wraps(o_finish)
        def finish(self_):
            out = o_finish(self_)
            mon.count("bitio-finish")
            if self_.bit_offset != self_._pv_pos:
                self_._pv_pos = self_.bit_offset
                self_._pv_len = max(self_._pv_len, self_._pv_pos)
            exp = self_._pv_bits.to_bytes((self_._pv_len + 7) // 8, "little")
            if bytes(out) != exp:
                mon.fail("bitio/writer-buffer", "finish(): real buffer %s differs from the shadow %s" % (bytes(out).hex(), exp.hex()))
            return out

        W.__init__, W.write_bits, W.align_to, W.finish = w_init, write_bits, w_align, finish

        o_rinit, o_read, o_ralign, o_sub = (self._orig[(Rd, n)] for n in ["__init__", "read_bits", "align_to", "bounded_subreader"])

        @functools.wraps(o_rinit)
        def r_init(self_, data, bit_offset=0, bit_limit=None):
            o_rinit(self_, data, bit_offset, bit_limit)
            self_._pv_depth = 0
            self_._pv_bound = len(self_._data) * 8 if bit_limit is None else min(len(self_._data) * 8, bit_offset + bit_limit)
            self_._pv_own_end = None if bit_limit is None else bit_offset + bit_limit

        def data_int(data):
            key = id(data)
            hit = mon._ints.get(key)
            if hit is None or hit[0] is not data:
                hit = (data, int.from_bytes(data, "little"))
                mon._ints[key] = hit
            return hit[1]

        @functools.wraps(o_read)
        def read_bits(self_, bit_length):
            if self_._pv_depth:
                return o_read(self_, bit_length)
            if not hasattr(self_, "_data") or not hasattr(self_, "_pv_bound"):
                mon.broken(AttributeError("_BitReader has no _data / was not constructed through __init__"))
                return o_read(self_, bit_length)
            before = self_.bit_offset
            self_._pv_depth += 1
            try:
                got = o_read(self_, bit_length)
            finally:
                self_._pv_depth -= 1
            mon.count("bitio-read")
            avail = max(0, min(bit_length, self_._pv_bound - before))
            exp = (data_int(self_._data) >> before) & ((1 << avail) - 1) if avail > 0 else 0
            if got != exp:
                mon.fail("bitio/reader-value", "read_bits(%d) at %d (bound %d, data %d bits): got %#x expected %#x" % (
                    bit_length, before, self_._pv_bound, len(self_._data) * 8, got, exp))
            if self_.bit_offset != before + bit_length:
                mon.fail("bitio/reader-offset", "read_bits(%d) at %d moved the offset to %d" % (bit_length, before, self_.bit_offset))
            return got

        @functools.wraps(o_ralign)
        def r_align(self_, bit_alignment):
            before = self_.bit_offset
            o_ralign(self_, bit_alignment)
            mon.count("bitio-read")
            exp = before + ((-before) % bit_alignment if bit_alignment > 0 else 0)
            if self_.bit_offset != exp:
                mon.fail("bitio/reader-offset", "align_to(%d) at %d moved the offset to %d" % (bit_alignment, before, self_.bit_offset))

        @functools.wraps(o_sub)
        def bounded_subreader(self_, bit_count):
            before = self_.bit_offset
            sub = o_sub(self_, bit_count)
            mon.count("bitio-subreader")
            if self_.bit_offset != before + bit_count:
                mon.fail("bitio/subreader", "parent advanced from %d to %d for a %d-bit sub-object" % (before, self_.bit_offset, bit_count))
            if getattr(sub, "_start_offset", before) != before or sub.bit_offset != before or sub._data is not self_._data:
                mon.fail("bitio/subreader", "sub-reader does not start where the parent stood (%r vs %d)" % (getattr(sub, "_bit_offset", None), before))
            # the effective bound can only shrink
            sub._pv_bound = min(before + bit_count, self_._pv_bound)
            return sub

        Rd.__init__, Rd.read_bits, Rd.align_to, Rd.bounded_subreader = r_init, read_bits, r_align, bounded_subreader
        return self

    def uninstall(self):
        for (cls, n), f in self._orig.items():
            setattr(cls, n, f)
        self._orig.clear()
