"""
Monitors that judge a live pydsdl.BitLengthSet object:
  compare(...)   against an expected R-bls tree (from R-layout);
  blsrepr(...)   M-blsrepr: against the reference evaluation of the object's own str() rendering.
Both only ask what the unchanged implementation can answer cheaply (cost predictor), and count what they asked.
"""
from __future__ import annotations

from pv.ref import bls as R

DEFAULT_DIVS = (1, 2, 3, 5, 7, 8, 16, 32, 64)


def affordable_divisors(tree, divisors, budget=40000):
    out = []
    for d in divisors:
        meter = R.CostMeter(budget)
        try:
            meter.mod(tree, d)
        except R.TooBig:
            continue
        out.append(d)
    return out


def compare(ctx, obj, exp_tree, mech, what, case, divisors=DEFAULT_DIVS, expand_limit=4096, impl_tree=None):
    """
    obj: pydsdl.BitLengthSet; exp_tree: expected set. impl_tree: tree describing how the implementation represents
    the set (for cost prediction); defaults to parsing str(obj).
    Returns True if everything agreed.
    """
    ok = True
    memo = {}
    try:
        it = impl_tree if impl_tree is not None else R.parse(str(obj))
    except ValueError:
        ctx.violation(mech + "/str", "%s: unparsable bit length set rendering %r" % (what, str(obj)[:200]), case)
        return False
    emin, emax = R.ref_min(exp_tree), R.ref_max(exp_tree)
    ctx.mon("bls-minmax")
    if obj.min != emin or obj.max != emax or obj.fixed_length != (emin == emax):
        ctx.violation(mech + "/minmax", "%s: min/max/fixed = %s/%s/%s expected %s/%s/%s" % (
            what, obj.min, obj.max, obj.fixed_length, emin, emax, emin == emax), case)
        ok = False
    for d in affordable_divisors(it, divisors):
        ctx.mon("bls-mod")
        got = set(obj % d)
        exp = R.ref_mod(exp_tree, d, memo)
        if got != exp:
            ctx.violation(mech + "/mod", "%s: %% %d = %s expected %s" % (what, d, sorted(got), sorted(exp)), case)
            ok = False
            break
    if expand_limit and emax <= 200000:
        # expand only when both the expected set and the implementation's enumeration are small
        try:
            emask = R.ref_expand_mask(exp_tree, limit_bits=1 << 18)
            n = R.popcount(emask)
            if n <= expand_limit:
                meter = R.CostMeter(120000)
                imemo = {}
                R.ref_expand_mask(it, limit_bits=1 << 18, _memo=imemo)
                meter.expand(it, imemo)
                ctx.mon("bls-expand")
                got = set(obj)
                exp = set(R.bits(emask))
                if got != exp:
                    ctx.violation(mech + "/expand", "%s: expansion differs: only-got %s only-expected %s" % (
                        what, sorted(got - exp)[:8], sorted(exp - got)[:8]), case)
                    ok = False
        except R.TooBig:
            pass
    return ok


def blsrepr(ctx, obj, mech, what, case, divisors=(1, 8, 32, 64)):
    """M-blsrepr: the object's answers must equal the reference evaluation of its own rendering."""
    try:
        t = R.parse(str(obj))
    except ValueError:
        ctx.violation(mech + "/str", "%s: unparsable rendering %r" % (what, str(obj)[:200]), case)
        return False
    return compare(ctx, obj, t, mech, what, case, divisors=divisors, expand_limit=512, impl_tree=t)


def member(ctx, obj, value: int, divisors=(8, 16, 32, 64), expand_limit=3000):
    """
    Is `value` an element of the live BitLengthSet `obj`?  Decided by full expansion when the implementation can do it
    cheaply, otherwise by the necessary conditions min <= value <= max and value mod d in (obj % d).
    Returns (verdict: bool, how: str).
    """
    if not (obj.min <= value <= obj.max):
        return False, "outside [min, max] = [%d, %d]" % (obj.min, obj.max)
    try:
        it = R.parse(str(obj))
    except ValueError:
        return True, "unparsable"
    if R.ref_max(it) <= 100000:
        try:
            imemo = {}
            mask = R.ref_expand_mask(it, limit_bits=1 << 17, _memo=imemo)
            if R.popcount(mask) <= expand_limit:
                meter = R.CostMeter(100000)
                meter.expand(it, imemo)
                ctx.mon("member-exact")
                return (value in set(obj)), "exact expansion"
        except R.TooBig:
            pass
    for d in affordable_divisors(it, divisors):
        ctx.mon("member-residue")
        if value % d not in set(obj % d):
            return False, "residue %d mod %d not in %s" % (value % d, d, sorted(obj % d))
    return True, "residues"


def live_difference(ctx, a, b, divisors=DEFAULT_DIVS, expand_limit=2048):
    """First observable difference between two live BitLengthSet objects, or None."""
    ctx.mon("bls-live-compare")
    if (a.min, a.max, a.fixed_length) != (b.min, b.max, b.fixed_length):
        return "min/max %s/%s vs %s/%s" % (a.min, a.max, b.min, b.max)
    try:
        ta, tb = R.parse(str(a)), R.parse(str(b))
    except ValueError:
        return None
    da = set(affordable_divisors(ta, divisors)) & set(affordable_divisors(tb, divisors))
    for d in sorted(da):
        if set(a % d) != set(b % d):
            return "%% %d: %s vs %s" % (d, sorted(a % d), sorted(b % d))
    try:
        for t in (ta, tb):
            if R.ref_max(t) > 100000:
                raise R.TooBig
            im = {}
            if R.popcount(R.ref_expand_mask(t, limit_bits=1 << 17, _memo=im)) > expand_limit:
                raise R.TooBig
            R.CostMeter(100000).expand(t, im)
        ctx.mon("bls-live-expand")
        if set(a) != set(b):
            return "expansions differ: %s vs %s" % (sorted(set(a) - set(b))[:6], sorted(set(b) - set(a))[:6])
    except R.TooBig:
        pass
    return None
