"""
M-reach: which statements and branch directions of the real pydsdl code the workloads of a check actually executed.

Informational monitor (never a verdict): it exists so that the evidence shows what the other monitors could have observed -
a rule whose enforcing line was never reached by the workload cannot have been judged - and so that unreached lines in the
files a property is anchored in point at input classes the generators do not produce yet.

Mechanism: sys.monitoring (tool id 1 = COVERAGE_ID).
 * LINE events on code objects of the pydsdl package (third_party excluded); the callback records (file, line) and returns
   DISABLE, so every location fires once per process: the cost is negligible.
 * BRANCH events: a location stays enabled until both directions were seen or BRANCH_CAP events were delivered for it
   (then it is disabled and counted as "one direction only within the first BRANCH_CAP evaluations").
Denominators come from compiling the source files and walking the code objects: only function bodies count (module and class
bodies run at import time, before the probe is installed), `_unittest*` functions of the repository are excluded.
"""
from __future__ import annotations

import os
import sys
from collections import defaultdict

TOOL = 1
BRANCH_CAP = 3000
_CO_OPTIMIZED = 0x1


class Reach:
    def __init__(self, repo_root: str):
        self.pkg = os.path.join(str(repo_root), "pydsdl") + os.sep
        self.skip = os.path.join(self.pkg, "third_party") + os.sep
        self.lines: set = set()
        self.branches: dict = {}     # (file, firstlineno, offset) -> [set(dest), count, line]
        self._lines: dict = {}
        self.on = False

    def _line_of(self, code, off) -> int:
        table = self._lines.get(code)
        if table is None:
            table = self._lines[code] = [(s_, e_, ln) for (s_, e_, ln) in code.co_lines() if ln is not None]
        for s_, e_, ln in table:
            if s_ <= off < e_:
                return ln
        return code.co_firstlineno

    def _mine(self, code) -> bool:
        fn = code.co_filename
        return fn.startswith(self.pkg) and not fn.startswith(self.skip)

    def install(self) -> bool:
        m = getattr(sys, "monitoring", None)
        if m is None:
            return False
        try:
            m.use_tool_id(TOOL, "pv-reach")
        except ValueError:
            return False
        me = self

        def on_line(code, line):
            if me._mine(code):
                me.lines.add((code.co_filename, line))
            return m.DISABLE

        def on_branch(code, off, dest):
            if not me._mine(code):
                return m.DISABLE
            key = (code.co_filename, code.co_firstlineno, off)
            rec = me.branches.get(key)
            if rec is None:
                rec = me.branches[key] = [set(), 0, me._line_of(code, off)]
            rec[0].add(dest)
            rec[1] += 1
            if len(rec[0]) >= 2 or rec[1] >= BRANCH_CAP:
                return m.DISABLE
            return None

        m.register_callback(TOOL, m.events.LINE, on_line)
        m.register_callback(TOOL, m.events.BRANCH, on_branch)
        m.set_events(TOOL, m.events.LINE | m.events.BRANCH)
        self.on = True
        return True

    def uninstall(self):
        if not self.on:
            return
        m = sys.monitoring
        m.set_events(TOOL, 0)
        m.register_callback(TOOL, m.events.LINE, None)
        m.register_callback(TOOL, m.events.BRANCH, None)
        m.free_tool_id(TOOL)
        self.on = False

    def result(self) -> dict:
        """Plain data for the shard result: relative file -> reached lines; branch sites with the number of directions seen."""
        lines = defaultdict(list)
        for fn, ln in self.lines:
            lines[fn[len(self.pkg):]].append(ln)
        br = defaultdict(list)
        for (fn, first, off), (dests, n, line) in self.branches.items():
            br[fn[len(self.pkg):]].append([first, off, len(dests), line])
        return {"lines": {k: sorted(v) for k, v in lines.items()}, "branches": {k: sorted(v) for k, v in br.items()}}


# ---- denominators (driver side) --------------------------------------------------------------------------------------
def _function_lines(path: str) -> dict:
    """function qualname -> set of statement lines, for every function body of the file (nested ones under their own name)."""
    try:
        src = open(path, "rb").read()
        top = compile(src, path, "exec")
    except Exception:  # noqa
        return {}
    out: dict = {}

    def walk(code, qual, in_test):
        for c in code.co_consts:
            if hasattr(c, "co_code"):
                name = c.co_name
                q = (qual + "." + name) if qual else name
                t = in_test or name.startswith("_unittest")
                if (c.co_flags & _CO_OPTIMIZED) and not t:
                    ls = {ln for (_s, _e, ln) in c.co_lines() if ln is not None and ln != c.co_firstlineno}
                    if name in ("<lambda>", "<genexpr>", "<listcomp>", "<setcomp>", "<dictcomp>"):
                        ls = {ln for (_s, _e, ln) in c.co_lines() if ln is not None}
                    out.setdefault(q, set()).update(ls)
                walk(c, q, t)

    walk(top, "", False)
    return out


def summarize(repo_root: str, shard_reaches: list, anchor_files: list) -> dict:
    """Aggregates the shards' reach data and relates it to the function bodies of the anchor files of the property."""
    pkg = os.path.join(str(repo_root), "pydsdl")
    reached = defaultdict(set)
    both = defaultdict(set)
    seen_sites = defaultdict(set)
    site_line = {}
    for r in shard_reaches:
        if not r:
            continue
        for f, ls in r.get("lines", {}).items():
            reached[f].update(ls)
        for f, sites in r.get("branches", {}).items():
            for first, off, n, *rest in sites:
                seen_sites[f].add((first, off))
                if rest:
                    site_line[(f, first, off)] = rest[0]
                if n >= 2:
                    both[f].add((first, off))
    files = {}
    tot_l = tot_r = 0
    anchors = [a[len("pydsdl/"):] if a.startswith("pydsdl/") else a for a in anchor_files if a.endswith(".py")]
    for rel in sorted(set(anchors)):
        fl = _function_lines(os.path.join(pkg, rel))
        all_lines = set().union(*fl.values()) if fl else set()
        got = reached.get(rel, set()) & all_lines
        never = sorted(q for q, ls in fl.items() if ls and not (ls & reached.get(rel, set())))
        partial = {}
        for q, ls in fl.items():
            miss = sorted(ls - reached.get(rel, set()))
            if miss and (ls & reached.get(rel, set())):
                partial[q] = miss[:12]
        files[rel] = {
            "function_lines": len(all_lines), "reached": len(got),
            "branch_sites_seen": len(seen_sites.get(rel, ())), "branch_sites_both_directions": len(both.get(rel, ())),
            "lines_with_a_branch_taken_one_way_only": sorted({site_line[(rel, a, b)] for (a, b) in seen_sites.get(rel, set()) - both.get(rel, set())
                                                              if (rel, a, b) in site_line})[:80],
            "functions_never_entered": never[:40],
            "unreached_lines_in_entered_functions": dict(sorted(partial.items())[:40]),
        }
        tot_l += len(all_lines)
        tot_r += len(got)
    return {
        "what": "statements / branch directions of the real pydsdl code executed by this run's workloads (sys.monitoring LINE+BRANCH; informational, not a verdict); "
                "denominator = statement lines of function bodies of the property's anchor files, repository unit-test functions excluded",
        "anchor_function_lines": tot_l, "anchor_lines_reached": tot_r,
        "package_lines_reached": sum(len(v) for v in reached.values()),
        "files": files,
    }
