#!/bin/sh
# Offline setup: installs icontract + jsonschema from the local wheelhouse into /verif/.deps (git-ignored).
HERE="$(cd "$(dirname "$0")" && pwd)"
cd "$HERE" || exit 2
exec env PYTHONPATH="$HERE" /venv/bin/python -c "from pv.core import ensure_deps; ensure_deps(); print('deps ok')"
