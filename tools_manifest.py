#!/usr/bin/env python3
"""Regenerates MANIFEST.json from the table below (keeps the manifest valid and in one place)."""
import json, sys
from pathlib import Path

HERE = Path(__file__).resolve().parent
BASELINE = "cd /repo && /venv/bin/python -m pytest -ra -q -p no:cacheprovider --timeout=900 --continue-on-collection-errors"

CHECKS = {
    "C01": ("reference-model monitor (sumset square-and-multiply oracle) on BitLengthSet queries + operand-immutability re-query + logical-step meter (sys.monitoring) with a polynomial budget on deep narrow operator chains",
            "R-bls reference (pv/ref/bls.py), cost predictor that resamples trees the unchanged implementation cannot answer"),
    "C02": ("reference-model monitor (R-layout) on every type object of generated universes, two build routes compared, and on their pickled / deep-copied / copied forms",
            "R-layout restates the Specification's layout rules; R-bls evaluates the expected sets; cost predictor bounds divisors"),
    "C06": ("reference-codec monitor (R-codec, independent IEEE-754 and bit packing) on serialize/deserialize + M-bitio shadow writer hooked on the real _BitWriter; histories in which the judged call follows a call rejected part-way or an in-place mutation of an earlier result by the caller",
            "R-codec is the trusted wire-format reference; NaN payloads not compared; serdes-sized capacities"),
    "C07": ("reference-decoder monitor on hostile byte strings + M-bitio shadow reader (every read_bits vs bounded reference extraction), metamorphic zero-extension/truncation, re-decoding after the caller mutated the earlier result in place",
            "R-codec decoder decides accept/reject and the value; serdes-sized capacities"),
    "C08": ("reference-model monitor (R-layout offsets) on iterate_fields_with_offsets/enumerate_elements_with_offsets + membership of R-codec's real field placements + @print intrinsics observed through the print handler; the same on pickled / copied model objects",
            "R-layout / R-codec references; `_offset_` queried only where the set is small enough to expand"),
    "C14": ("paired-revision workload: live comparison of container layouts/offsets + cross-revision serialize/deserialize against a structural projection oracle, M-bitio sub-reader shadow; layouts compared on pickled / copied type graphs too; re-reading / re-writing after the caller mutated a received object in place",
            "R-codec / R-layout references; D is a structure"),
    "C16": ("M-expand probe on every Operator.expand + M-enum counting proxy for _symbolic.itertools with per-divisor invariants + M-builtin (min/max/sum/sorted/any/all of the set modules charged for operand size before C code walks it) + sys.monitoring step meter, compared across capacity magnitudes congruent mod 64",
            "cost measured in logical units only; templates too expensive for the unchanged implementation at the smallest magnitude are resampled"),
    "C18": ("contract monitor over independently built object pairs (reflexive/symmetric/hash/eq-implies-same) and against foreign operands, introspected list-accessor mutation probe, pickle round-trip fingerprint in-process and in a sub-process with another hash seed (twins built there), composites with up to 300 fields",
            "R-bls decides exact set equality when small; approximate BitLengthSet equality may err towards equality as the statement allows"),
    "C03": ("M-conserve event log inside the real builder (emitted = committed at finalize) + expected-signature oracle from the description + metamorphic comparison across formatting policies + canonical re-rendering round trip",
            "doc comments asserted only for unambiguous placements; statements are never indented"),
    "C04": ("reference-evaluator monitor (R-expr, exact rationals, own precedence table) on the value object recorded at the real directive handler and on @print text; injected undefined sub-expressions must be rejected; metamorphic operand-order monitor (swapped operands of set literals / commutative set operators: same outcome, same printed text)",
            "R-expr is the trusted evaluator; results the Specification does not pin are not compared; bounded exponents"),
    "C12": ("icontract postcondition (M-const) on the real Constant.__init__ + complete boundary grid with accept/reject and exact stored-value oracle",
            "acceptance rules as restated in the property; exhaustive=true refers to the finite boundary grid only"),
    "C13": ("exception-taxonomy classifier (M-tax) at the API boundary over token/character mutations, noise, raw non-UTF-8 bytes, ~250 targeted corner statements, deep nesting, dependency chains (fan-out 1-3, namespace depth 0-60, up to 1100 definitions) under a logical-step budget, hostile directory entries (names, symbolic links) and degenerate read_files targets",
            "mutants that could only exhaust resources are dropped and counted; UTF-8 text only"),
    "C17": ("fault/@print injection at known lines and depths (incl. references misspelled in letter case only); M-tax on Error.path/line and M-print (evaluations recorded at the real directive handler vs deliveries to the user handler)",
            "finalize-time errors carry no line by design: only their path is checked"),
    "C09": ("unique-id constants make every resolution observable; R-resolve reference on generated dependency graphs, read_namespace vs read_files in random target orders, 15 injected error shapes, histories re-using one lookup list object across reads, valid chains read head first vs leaf first under the default recursion limit",
            "R-resolve restates the resolution rule of the property"),
    "C10": ("R-order reference + determinism under injected perturbation: sub-processes with different PYTHONHASHSEED, seeded shuffling wrapper on Path.rglob, equivalent argument spellings/orders/duplicates/symlinks/container forms (incl. one-shot iterables); signatures compared byte for byte; duplicate-file and symlinked-definition-file experiments (one composite per directory entry)",
            "only accept/reject and successful results are compared (which of several errors is reported may depend on order)"),
    "C11": ("pairwise rule predicate (exactly the statement's) as oracle over generated definition families in target and referenced-lookup placement; two-definition sub-space enumerated in the thorough tier; same-version twins (two files spelling one name and version)",
            "unregulated port-IDs (regulated ranges belong to C05)"),
    "C15": ("R-path oracle (identity parsed from the path by the harness) over a matrix of ~27 target/root designations with cwd changes (documented forms must succeed, off-form ones may only fail with InvalidDefinitionError); agreement of all succeeding designations; malformed names must be rejected; symlinked definition files named by their own entry",
            "numbers in file names are plain ASCII decimal numbers (leading zeros not judged); undocumented mixed designations may fail"),
    "C19": ("differential monitor: baseline read vs re-read after replacing/adding definitions outside the R-resolve closure (incl. an unreferenced namesake of a target and a nested namespace shadowing a referenced root name); outcome signature and @print log compared; audit hook records opened files",
            "file names stay valid"),
    "C05": ("R-rules oracle: valid-by-construction skeleton + rule mutators with known legal/illegal side at random admissible positions; accept/reject compared at the API boundary; M-conserve and M-const on",
            "rule list as restated in the property; pydsdl-specific extras avoided by the skeleton"),
}

NOT_YET = {
}

def main():
    props = [json.loads(l) for l in (HERE / "properties.jsonl").read_text().splitlines() if l.strip()]
    checks, na = [], []
    for p in props:
        pid = p["id"]
        if pid in CHECKS:
            tech, note = CHECKS[pid]
            checks.append({
                "property_id": pid,
                "quick_cmd": "./check %s --tier quick" % pid,
                "thorough_cmd": "./check %s --tier thorough" % pid,
                "evidence_file": "evidence/%s.json" % pid,
                "replay_cmd_template": "./check %s --replay {path}" % pid,
                "engine": "pv",
                "level_claimed": {
                    "category": "exploration",
                    "text": "Runtime monitoring: the real pydsdl code is executed on generated workloads while reference-model "
                            "oracles and hooks on the real functions judge every execution; the property is claimed only for "
                            "the executions observed (counts and samples in the evidence file).",
                    "design_ref": "DESIGN.md section 4, %s" % pid,
                },
                "level_note": note,
                "technique": tech,
            })
        else:
            na.append({"property_id": pid, "reason": NOT_YET.get(pid, "check not built yet (runtime-monitoring check planned in DESIGN.md section 4)")})
    m = {
        "version": 1,
        "setup_cmd": "./setup.sh",
        "hooks": {
            "guard": "PYDSDL_VERIF",
            "enable": "no source hooks: every monitor is attached from the harness (in-place method wrappers, icontract, sys.monitoring); PV_REPO selects the tree under test",
            "baseline_off_cmd": BASELINE,
            "source_commits": [],
            "add_only": True,
        },
        "engines": [{"name": "pv", "path": "pv/core.py", "serves_properties": [c["property_id"] for c in checks],
                     "kind_free_text": "sharded runtime-monitoring runner: workload generators, reference-model oracles, hooks on the real code, evidence writer"}],
        "checks": checks,
        "notes": "All checks: ./check <id> --tier quick|thorough; env VERIF_SEED, PV_REPO. Exit 0 held, 1 VIOLATION, 2 INCONCLUSIVE.",
        "not_applicable": na,
    }
    (HERE / "MANIFEST.json").write_text(json.dumps(m, indent=1) + "\n")
    try:
        sys.path.append(str(HERE / ".deps"))
        import jsonschema
        jsonschema.validate(m, json.loads((HERE / "pv/schemas/MANIFEST.schema.json").read_text()))
        print("MANIFEST.json valid; %d checks, %d not claimed" % (len(checks), len(na)))
    except ImportError:
        print("written (jsonschema not available)")

if __name__ == "__main__":
    main()
