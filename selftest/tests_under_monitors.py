#!/usr/bin/env python3
"""
False-positive audit of the always-on monitors: runs the repository's own test-suite in-process with M-const, M-conserve
and M-bitio attached to the real classes.  A monitor that fires here is either too strict or a defect the tests do not
assert; every firing is printed.  Usage: PYTHONPATH=/verif /venv/bin/python selftest/tests_under_monitors.py
"""
import os, sys
sys.path[:0] = [os.environ.get("PV_REPO", "/repo"), "/verif", "/verif/.deps"]
from collections import Counter


class RecCtx:
    def __init__(self):
        self.monitors = Counter()
        self.violations = []

    def mon(self, name, n=1):
        self.monitors[name] += n

    def violation(self, mech, detail, case):
        self.violations.append((mech, str(detail)[:400]))

    def inconclusive_case(self, why, case=None):
        self.violations.append(("monitor-broken", why))


def main():
    import pytest
    import pydsdl
    from pv.mon.bitio import BitIO
    from pv.mon.conserve import Conserve
    from pv.mon.const import ConstMonitor

    ctx = RecCtx()
    for m in (BitIO(pydsdl).install(), Conserve(pydsdl).install(), ConstMonitor(pydsdl).install()):
        m.bind(ctx, {"origin": "repository test-suite"})
    os.chdir(os.environ.get("PV_REPO", "/repo"))
    rc = pytest.main(["-q", "-p", "no:cacheprovider", "--timeout=900", "-x", "--no-header", "-W", "ignore"])
    print("pytest exit:", rc)
    print("monitor evaluations:", dict(ctx.monitors))
    seen = Counter(m for m, _ in ctx.violations)
    print("monitor firings:", dict(seen))
    for mech in seen:
        print("  e.g.", [d for m, d in ctx.violations if m == mech][0])
    return 1 if (ctx.violations or rc != 0) else 0


if __name__ == "__main__":
    sys.exit(main())
