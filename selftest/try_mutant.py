#!/usr/bin/env python3
"""
Apply a textual change to a scratch copy of /repo/pydsdl (outside /repo and /verif), run the named checks against it via
PV_REPO, and report whether each raised a VIOLATION.  Usage:
    try_mutant.py <relative file> <old text> <new text> <prop> [<prop> ...] [--tests]
"""
import os, shutil, subprocess, sys, tempfile
from pathlib import Path

def main():
    args = [a for a in sys.argv[1:] if a != "--tests"]
    run_tests = "--tests" in sys.argv
    rel, old, new, props = args[0], args[1], args[2], args[3:]
    base = Path(tempfile.mkdtemp(prefix="pvmut-", dir="/dev/shm" if os.path.isdir("/dev/shm") else None))
    try:
        shutil.copytree("/repo/pydsdl", base / "pydsdl", ignore=shutil.ignore_patterns("__pycache__"))
        for f in ("conftest.py", "setup.cfg", "pyproject.toml"):
            if os.path.exists("/repo/" + f):
                shutil.copy("/repo/" + f, base / f)
        p = base / rel
        s = p.read_text()
        if s.count(old) != 1:
            print("old text occurs %d times in %s" % (s.count(old), rel)); return 2
        p.write_text(s.replace(old, new))
        if run_tests:
            r = subprocess.run(["/venv/bin/python", "-m", "pytest", "-q", "-x", "-p", "no:cacheprovider", "--timeout=900", "pydsdl"], cwd=base, capture_output=True, text=True,
                               env=dict(os.environ, PYTHONPATH=str(base)))
            print("pinned suite on mutant:", r.stdout.strip().splitlines()[-1] if r.stdout.strip() else r.stderr[-300:])
        for prop in props:
            r = subprocess.run(["/verif/check", prop, "--tier", "quick"], env=dict(os.environ, PV_REPO=str(base)), capture_output=True, text=True)
            lines = r.stdout.strip().splitlines()
            viol = [l for l in lines if l.startswith("VIOLATION")]
            print("%s: exit %d, %d VIOLATION lines; %s" % (prop, r.returncode, len(viol), (viol[0][:260] if viol else lines[-1][:200] if lines else r.stderr[-300:])))
    finally:
        shutil.rmtree(base, ignore_errors=True)
    return 0

if __name__ == "__main__":
    sys.exit(main())
