#!/bin/sh
# Seed sweep: runs every check for the given tier and seeds; prints only verdict / violation lines.
# usage: selftest/sweep.sh <tier> <seed> [<seed> ...]
tier="$1"; shift
cd "$(dirname "$0")/.." || exit 2
for s in "$@"; do
  for p in C01 C02 C03 C04 C05 C06 C07 C08 C09 C10 C11 C12 C13 C14 C15 C16 C17 C18 C19; do
    VERIF_SEED=$s ./check $p --tier "$tier" 2>&1 | grep -E "VIOLATION|INCONCLUSIVE|HELD|VIOLATED|Traceback|Error" | cut -c1-260
  done
done
