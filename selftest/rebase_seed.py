#!/usr/bin/env python3
"""
Re-bases a seeded change whose patch no longer applies because /repo has moved on (repairs of genuine defects).
Step 1:  rebase_seed.py <name>            creates /dev/shm/rebase-<name> (worktree of /repo HEAD), applies what applies
                                           (patch -F3, rejects are left as *.rej) and prints the rejected hunks.
Step 2:  (edit the files of the worktree by hand so that the change is complete again)
Step 3:  rebase_seed.py <name> --finish   re-confirms the change on the new base (suite passes with it, demo fails with it
                                           and passes without it), keeps the old patch as patch.<old base>.diff, writes the
                                           new patch.diff, records the new base commit in meta.json and removes the worktree.
"""
import json, os, shutil, subprocess, sys
from pathlib import Path

HERE = Path(__file__).resolve().parent.parent


def sh(cmd, cwd, env=None, timeout=1800):
    return subprocess.run(cmd, cwd=cwd, env=env, capture_output=True, text=True, timeout=timeout)


def main():
    name = sys.argv[1]
    sd = HERE / "seeded" / name
    wt = Path("/dev/shm/rebase-" + name)
    if "--finish" not in sys.argv:
        if wt.exists():
            sh(["git", "-C", "/repo", "worktree", "remove", "--force", str(wt)], "/")
        sh(["git", "-C", "/repo", "worktree", "add", "-q", "--detach", str(wt), "HEAD"], "/")
        r = sh(["patch", "-p1", "-F3", "--no-backup-if-mismatch", "-i", str(sd / "patch.diff")], str(wt))
        print(r.stdout[-3000:])
        for rej in wt.rglob("*.rej"):
            print("=== rejected:", rej)
            print(rej.read_text()[:3000])
        print("worktree:", wt)
        return 0
    env = dict(os.environ, PYTHONPATH=str(wt), PYTHONDONTWRITEBYTECODE="1")
    for junk in list(wt.rglob("*.rej")) + list(wt.rglob("*.orig")):
        junk.unlink()
    diff = sh(["git", "diff", "--", "pydsdl"], wt).stdout
    shutil.copy(sd / "demo.py", wt / "demo.py")
    t = sh(["/venv/bin/python", "-m", "pytest", "-q", "-p", "no:cacheprovider", "--timeout=900"], wt, env)
    suite = t.stdout.strip().splitlines()[-1] if t.stdout.strip() else t.stderr[-200:]
    with_change = sh(["/venv/bin/python", "demo.py"], wt, env, 900)
    (wt / "_r.diff").write_text(diff)
    sh(["git", "checkout", "--", "pydsdl"], wt)
    without = sh(["/venv/bin/python", "demo.py"], wt, env, 900)
    ok = t.returncode == 0 and with_change.returncode != 0 and without.returncode == 0
    print("suite with change: %s | demo with change: exit %d | demo without: exit %d => %s" % (suite, with_change.returncode, without.returncode, "CONFIRMED" if ok else "NOT CONFIRMED"))
    if not ok:
        sh(["git", "apply", "_r.diff"], wt)
        print(with_change.stdout[-600:], with_change.stderr[-300:], without.stdout[-300:], without.stderr[-300:])
        return 1
    meta = json.loads((sd / "meta.json").read_text())
    head = sh(["git", "rev-parse", "--short", "HEAD"], wt).stdout.strip()
    old = meta.get("base_commit", "old")
    shutil.copy(sd / "patch.diff", sd / ("patch.%s.diff" % old))
    (sd / "patch.diff").write_text(diff)
    meta.setdefault("rebased", []).append({"from": old, "to": head, "why": "the repository moved on (repairs of genuine defects); same change, re-confirmed on the new base",
                                           "pinned_suite_with_change": suite, "demo_with_change_exit": with_change.returncode, "demo_without_change_exit": without.returncode})
    meta["base_commit"] = head
    (sd / "meta.json").write_text(json.dumps(meta, indent=1) + "\n")
    sh(["git", "-C", "/repo", "worktree", "remove", "--force", str(wt)], "/")
    print("re-based", name, "onto", head)
    return 0


if __name__ == "__main__":
    sys.exit(main())
