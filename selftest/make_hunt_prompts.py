#!/usr/bin/env python3
"""
Prepares a round of independent adversarial testing of the UNMODIFIED tree: one scratch git worktree of /repo per property
under /tmp/hunt<round>/<id> and one self-contained prompt per property (the property text and the defects already known - from
known_findings.json - and nothing about the checks).  Whatever a tester reports is reproduced on /repo before it is believed;
confirmed reports widen the generators of the check concerned.  Usage: make_hunt_prompts.py <round> [ids...]
"""
import json, subprocess, sys
from pathlib import Path

HERE = Path(__file__).resolve().parent.parent
rnd = sys.argv[1]
only = set(sys.argv[2:])
base = Path("/tmp/hunt%s" % rnd)
base.mkdir(parents=True, exist_ok=True)
props = {json.loads(l)["id"]: json.loads(l) for l in (HERE / "properties.jsonl").read_text().splitlines() if l.strip()}
known = {}
for f in json.loads((HERE / "known_findings.json").read_text())["findings"]:
    known.setdefault(f["property"], []).append(("(already repaired) " if f["status"] == "fixed" else "(known, not repaired) ") + f["what"])
extra = json.loads((HERE / "selftest" / "hunt_known_extra.json").read_text()) if (HERE / "selftest" / "hunt_known_extra.json").exists() else {}
TEMPLATE = (HERE / "selftest" / "hunt_prompt_template.txt").read_text()
for pid, p in props.items():
    if only and pid not in only:
        continue
    d = base / pid
    if not d.exists():
        subprocess.run(["git", "-C", "/repo", "worktree", "add", "-q", "--detach", str(d), "HEAD"], check=True)
    kn = known.get(pid, []) + extra.get(pid, []) + extra.get("*", [])
    (base / ("prompt_%s.txt" % pid)).write_text(TEMPLATE.format(d=str(d), title=p["title"], statement=p["statement"], quant=p["quantifier"]["text"],
                                                 known="\n".join("- " + t for t in kn) or "- (nothing yet)"))
print("prepared", len(only or props), "worktrees and prompts under", base)
