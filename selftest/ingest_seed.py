#!/usr/bin/env python3
"""
Confirms a property-breaking change produced in a scratch worktree and files it under /verif/seeded/<name>/.
Usage: ingest_seed.py <worktree> <name> <property> "<what it needs to manifest>"
Confirms: (1) the pinned suite passes with the change, (2) demo.py fails with the change, (3) demo.py passes without it.
"""
import json, os, shutil, subprocess, sys
from pathlib import Path

def sh(cmd, cwd, env=None, timeout=1800):
    return subprocess.run(cmd, cwd=cwd, env=env, capture_output=True, text=True, timeout=timeout)

def main():
    wt, name, prop, needs = Path(sys.argv[1]), sys.argv[2], sys.argv[3], sys.argv[4]
    env = dict(os.environ, PYTHONPATH=str(wt), PYTHONDONTWRITEBYTECODE="1")
    diff = sh(["git", "diff", "--", "pydsdl"], wt).stdout
    if not diff.strip():
        print("no change in the worktree"); return 2
    t = sh(["/venv/bin/python", "-m", "pytest", "-q", "-p", "no:cacheprovider", "--timeout=900"], wt, env)
    suite = t.stdout.strip().splitlines()[-1] if t.stdout.strip() else t.stderr[-200:]
    with_change = sh(["/venv/bin/python", "demo.py"], wt, env, 600)
    (wt / "_ingest.diff").write_text(diff)
    sh(["git", "checkout", "--", "pydsdl"], wt)
    without = sh(["/venv/bin/python", "demo.py"], wt, env, 600)
    sh(["git", "apply", "_ingest.diff"], wt)
    (wt / "_ingest.diff").unlink()
    ok = t.returncode == 0 and with_change.returncode != 0 and without.returncode == 0
    print("suite with change: %s | demo with change: exit %d | demo without: exit %d => %s" % (suite, with_change.returncode, without.returncode, "CONFIRMED" if ok else "NOT CONFIRMED"))
    if not ok:
        print(with_change.stdout[-500:], with_change.stderr[-300:], without.stdout[-300:], without.stderr[-300:])
        return 1
    out = Path("/verif/seeded") / name
    out.mkdir(parents=True, exist_ok=True)
    (out / "patch.diff").write_text(diff)
    shutil.copy(wt / "demo.py", out / "demo.py")
    head = sh(["git", "rev-parse", "--short", "HEAD"], wt).stdout.strip()
    meta = {"property": prop, "name": name, "needs_to_manifest": needs, "base_commit": head, "origin": "independent sub-agent given only the property text and a scratch worktree",
            "confirmed": {"pinned_suite_with_change": suite, "demo_with_change_exit": with_change.returncode, "demo_without_change_exit": without.returncode,
                          "demo_output_with_change": (with_change.stdout + with_change.stderr)[-600:]},
            "ran": ["PYTHONPATH=<worktree> /venv/bin/python -m pytest -q -p no:cacheprovider --timeout=900", "PYTHONPATH=<worktree> /venv/bin/python demo.py (with and without the patch)"]}
    (out / "meta.json").write_text(json.dumps(meta, indent=1) + "\n")
    print("filed under", out)
    return 0

if __name__ == "__main__":
    sys.exit(main())
