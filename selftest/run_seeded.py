#!/usr/bin/env python3
"""
Runs the checks against every seeded property-breaking change kept under /verif/seeded/<id>/ (patch.diff + meta.json).
Each patch is applied to a scratch copy of /repo's working tree outside /repo and /verif (PV_REPO points the checks at it);
the copy is deleted afterwards.  Usage: run_seeded.py [<id> ...] [--tier quick|thorough] [--all-props]
Prints one line per (seeded change, property): caught (VIOLATION) or missed.
"""
import json, os, shutil, subprocess, sys, tempfile
from pathlib import Path

HERE = Path(__file__).resolve().parent.parent

def main():
    args = [a for a in sys.argv[1:] if not a.startswith("--")]
    tier = "thorough" if "--tier" in sys.argv and sys.argv[sys.argv.index("--tier") + 1] == "thorough" else "quick"
    if "--tier" in sys.argv:
        args = [a for a in args if a not in ("quick", "thorough")]
    seeded = sorted(p for p in (HERE / "seeded").iterdir() if p.is_dir() and (not args or p.name in args))
    rc = 0
    for sd in seeded:
        meta = json.loads((sd / "meta.json").read_text())
        if meta.get("retired"):
            print("%-28s retired: %s" % (sd.name, meta["retired"][:110]))
            continue
        props = meta.get("caught_by") or [meta["property"]]
        if "--all-props" in sys.argv:
            props = sorted({json.loads(l)["id"] for l in (HERE / "properties.jsonl").read_text().splitlines() if l.strip()})
        base = Path(tempfile.mkdtemp(prefix="pvseed-", dir="/dev/shm" if os.path.isdir("/dev/shm") else None))
        try:
            subprocess.run(["git", "-C", "/repo", "worktree", "add", "-q", "--detach", str(base / "r"), "HEAD"], check=True)
            r = subprocess.run(["git", "-C", str(base / "r"), "apply", str(sd / "patch.diff")], capture_output=True, text=True)
            if r.returncode != 0:
                # the repository has moved on since the change was written (repairs of genuine defects): merge it
                r = subprocess.run(["git", "-C", str(base / "r"), "apply", "--3way", str(sd / "patch.diff")], capture_output=True, text=True)
                if r.returncode == 0:
                    print("%s: applied by 3-way merge" % sd.name)
            if r.returncode != 0:
                subprocess.run(["git", "-C", str(base / "r"), "checkout", "--", "."], capture_output=True)
                r = subprocess.run(["patch", "-p1", "-F3", "--no-backup-if-mismatch", "-i", str(sd / "patch.diff")], cwd=str(base / "r"), capture_output=True, text=True)
                if r.returncode == 0:
                    print("%s: applied with fuzz" % sd.name)
                r.stderr = r.stderr or r.stdout
            if r.returncode != 0:
                print("%s: patch does not apply: %s" % (sd.name, r.stderr.strip()[:200])); rc = 1; continue
            for prop in props:
                r = subprocess.run([str(HERE / "check"), prop, "--tier", tier], env=dict(os.environ, PV_REPO=str(base / "r")), capture_output=True, text=True)
                viol = [l for l in r.stdout.splitlines() if l.startswith("VIOLATION")]
                print("%-28s %s: %s  %s" % (sd.name, prop, "CAUGHT" if viol else "missed (exit %d)" % r.returncode, (viol[0][:170] if viol else "")))
                if not viol and prop == meta["property"]:
                    rc = 1
        finally:
            subprocess.run(["git", "-C", "/repo", "worktree", "remove", "--force", str(base / "r")], capture_output=True)
            shutil.rmtree(base, ignore_errors=True)
    return rc

if __name__ == "__main__":
    sys.exit(main())
