#!/usr/bin/env python3
"""Regenerates the table of seeded changes in DESIGN.md (between the SEEDED-TABLE markers) from seeded/*/meta.json."""
import json, glob, re
from pathlib import Path

HERE = Path(__file__).resolve().parent.parent
NOTES = json.loads((HERE / "selftest" / "seeded_notes.json").read_text())
rows = []
for f in sorted(glob.glob(str(HERE / "seeded" / "*" / "meta.json"))):
    m = json.load(open(f))
    by = ",".join(m.get("caught_by", [m["property"]]))
    if m.get("retired"):
        by = "RETIRED (was caught by %s): %s" % (by, m["retired"][:400])
    rows.append((m["name"], m["property"], m["needs_to_manifest"], by))
out = ["<!-- SEEDED-TABLE-BEGIN -->", "| seeded change | property | needs to manifest | caught by (quick tier) |", "|---|---|---|---|"]
for n, p, needs, by in rows:
    out.append("| %s | %s | %s | %s%s |" % (n, p, needs.replace("|", "/")[:260], by, (" - " + NOTES[n]) if n in NOTES else ""))
missed = [n for n, *_ in rows if n in NOTES]
out += ["", "%d seeded changes, nine per property, from nine rounds of independent sub-agents (each later round was told the earlier rounds' ideas"
        % len(rows), "and asked for a different mechanism). %d of them were missed - or caught only for an incidental reason - by the version of the check that" % len(missed),
        "existed when they arrived; in every case the oracle was adequate and the *workload* did not reach the triggering input class, so the",
        "generator was widened (never the oracle loosened), the unchanged tree was re-swept over several seeds, and the change is now caught",
        "within the quick tier for the reason its property names. A change marked RETIRED stopped breaking its property when a genuine defect of the",
        "repository was repaired (the repair closed the path its trigger needs); it stays on file with its history and is skipped by run_seeded.py.", "<!-- SEEDED-TABLE-END -->"]
d = (HERE / "DESIGN.md").read_text()
block = "\n".join(out)
if "<!-- SEEDED-TABLE-BEGIN -->" in d:
    d = re.sub(r"<!-- SEEDED-TABLE-BEGIN -->.*<!-- SEEDED-TABLE-END -->", lambda _m: block, d, flags=re.S)
else:
    i = d.index("| seeded change | property | needs to manifest | caught by (quick tier) |")
    d = d[:i] + block + "\n"
(HERE / "DESIGN.md").write_text(d)
print("table with %d rows written" % len(rows))
