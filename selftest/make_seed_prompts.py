#!/usr/bin/env python3
"""
Prepares a round of independent property-breaking experiments: one scratch git worktree of /repo per property under
/tmp/seed<round>/<id> and one self-contained prompt file per property (the property text, the ideas already tried - taken
from seeded/*/meta.json - and nothing about the checks).  Usage: make_seed_prompts.py <round>
"""
import glob, json, subprocess, sys
from pathlib import Path

HERE = Path(__file__).resolve().parent.parent
rnd = sys.argv[1]
base = Path("/tmp/seed%s" % rnd)
base.mkdir(parents=True, exist_ok=True)
props = {json.loads(l)["id"]: json.loads(l) for l in (HERE / "properties.jsonl").read_text().splitlines() if l.strip()}
tried = {}
for f in sorted(glob.glob(str(HERE / "seeded" / "*" / "meta.json"))):
    m = json.load(open(f))
    tried.setdefault(m["property"], []).append(m["needs_to_manifest"])
TEMPLATE = (HERE / "selftest" / "seed_prompt_template.txt").read_text()
for pid, p in props.items():
    d = base / pid
    if not d.exists():
        subprocess.run(["git", "-C", "/repo", "worktree", "add", "-q", "--detach", str(d), "HEAD"], check=True)
    (base / ("prompt_%s.txt" % pid)).write_text(TEMPLATE.format(d=str(d), pid=pid, rnd=rnd, title=p["title"], statement=p["statement"], quant=p["quantifier"]["text"],
                                                 tried="\n".join("- " + t for t in tried.get(pid, []))))
print("prepared", len(props), "worktrees and prompts under", base)
